--------------------------------- MODULE Tens4 ---------------------------------
\* Fourth-order tensors in index notation over 3x3 integer matrices (reference model of st2tost2, t2tot2,
\* t2tost2 and st2tot2).  A fourth-order tensor is an operator C(i, j, k, l) of four indices in 1..3 ; the four
\* storage classes only differ by the minor symmetries they assume:
\*    st2tost2 : C_ijkl = C_jikl = C_ijlk        t2tot2 : none
\*    t2tost2  : C_ijkl = C_jikl                 st2tot2 : C_ijkl = C_ijlk
\* A *reduced array* is the flat row-major sequence of the independent components C_(ij)(kl), the pair (ij)
\* running over 11 22 33 12 13 23 (symmetric side, 6 pairs) or 11 22 33 12 21 13 31 23 32 (unsymmetric side,
\* 9 pairs).  Reduced arrays always have 6 or 9 rows / columns ; in dimension 1 and 2 the rows and columns of
\* the missing pairs are zero (the tensors of dimension n form an invariant subspace of every operation).
\* Nothing here is transcribed from TFEL: the sqrt 2 normalisation of TFEL's storage is undone by the harness
\* with an exact rescaling, so that only the index-notation meaning is compared.
EXTENDS Mat3, Integers, Sequences, TLC
Sum3(f(_)) == f(1) + f(2) + f(3)
Sum9(f(_, _)) == Sum3(LAMBDA k : Sum3(LAMBDA l : f(k, l)))
Dl(i, j) == IF i = j THEN 1 ELSE 0
\* index pairs
SP == <<<<1, 1>>, <<2, 2>>, <<3, 3>>, <<1, 2>>, <<1, 3>>, <<2, 3>>>>
FP == <<<<1, 1>>, <<2, 2>>, <<3, 3>>, <<1, 2>>, <<2, 1>>, <<1, 3>>, <<3, 1>>, <<2, 3>>, <<3, 2>>>>
SI(i, j) == IF i = j THEN i ELSE IF i + j = 3 THEN 4 ELSE IF i + j = 4 THEN 5 ELSE 6
FI(i, j) == IF i = j THEN i
            ELSE IF i + j = 3 THEN (IF i < j THEN 4 ELSE 5)
            ELSE IF i + j = 4 THEN (IF i < j THEN 6 ELSE 7) ELSE (IF i < j THEN 8 ELSE 9)
\* number of pairs present in dimension n
NS(n) == IF n = 1 THEN 3 ELSE IF n = 2 THEN 4 ELSE 6
NF(n) == IF n = 1 THEN 3 ELSE IF n = 2 THEN 5 ELSE 9
\* ---- reduced array -> fourth-order tensor ----
Tss(c, i, j, k, l) == c[((SI(i, j) - 1) * 6) + SI(k, l)]
Ttt(c, i, j, k, l) == c[((FI(i, j) - 1) * 9) + FI(k, l)]
Tts(c, i, j, k, l) == c[((SI(i, j) - 1) * 9) + FI(k, l)]      \* t2tost2: symmetric result, unsymmetric argument
Tst(c, i, j, k, l) == c[((FI(i, j) - 1) * 6) + SI(k, l)]      \* st2tot2: unsymmetric result, symmetric argument
\* ---- fourth-order tensor -> reduced array of dimension n ----
Row(q, w) == ((q - 1) \div w) + 1
Col(q, w) == ((q - 1) % w) + 1
RedSS(n, C(_, _, _, _)) == [q \in 1..36 |-> LET I == Row(q, 6) J == Col(q, 6) IN
    IF I <= NS(n) /\ J <= NS(n) THEN C(SP[I][1], SP[I][2], SP[J][1], SP[J][2]) ELSE 0]
RedTT(n, C(_, _, _, _)) == [q \in 1..81 |-> LET I == Row(q, 9) J == Col(q, 9) IN
    IF I <= NF(n) /\ J <= NF(n) THEN C(FP[I][1], FP[I][2], FP[J][1], FP[J][2]) ELSE 0]
RedTS(n, C(_, _, _, _)) == [q \in 1..54 |-> LET I == Row(q, 9) J == Col(q, 9) IN
    IF I <= NS(n) /\ J <= NF(n) THEN C(SP[I][1], SP[I][2], FP[J][1], FP[J][2]) ELSE 0]
RedST(n, C(_, _, _, _)) == [q \in 1..54 |-> LET I == Row(q, 6) J == Col(q, 6) IN
    IF I <= NF(n) /\ J <= NS(n) THEN C(FP[I][1], FP[I][2], SP[J][1], SP[J][2]) ELSE 0]
\* all 81 components, row-major in (i, j, k, l)
Full81(C(_, _, _, _)) == [q \in 1..81 |-> LET r == q - 1 IN
    C((r \div 27) + 1, ((r \div 9) % 3) + 1, ((r \div 3) % 3) + 1, (r % 3) + 1)]
\* second-order results as matrices: (C : A)_ij = C_ijkl A_kl,  (A : C)_kl = A_ij C_ijkl
Apply(C(_, _, _, _), A) == Mat(LAMBDA i, j : Sum9(LAMBDA k, l : C(i, j, k, l) * A[k][l]))
ApplyLeft(A, C(_, _, _, _)) == Mat(LAMBDA k, l : Sum9(LAMBDA i, j : A[i][j] * C(i, j, k, l)))
\* minor symmetries (sanity of the oracle)
SymLeft(C(_, _, _, _)) == \A i, j, k, l \in I3 : C(i, j, k, l) = C(j, i, k, l)
SymRight(C(_, _, _, _)) == \A i, j, k, l \in I3 : C(i, j, k, l) = C(i, j, l, k)
\* embedding of a tensor of dimension n given by nine components (TFEL order): missing components are zero
Embed9(n, c) == [q \in 1..9 |-> IF q <= NF(n) THEN c[q] ELSE 0]
=============================================================================

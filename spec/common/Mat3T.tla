--------------------------------- MODULE Mat3T ---------------------------------
(* Exact 3x3 integer matrices in index notation: the reference model of second-order tensors.
   Same definitions as Mat3.tla, but matrices are built as explicit tuples: TLC evaluates a tuple eagerly, whereas the
   function constructor of Mat3.tla is lazy and re-evaluates an entry each time it is read, which is exponential in
   the depth of nested products (C06 / C23 nest up to six operations under four-point stencils).
   A matrix is a tuple of three rows <<r1, r2, r3>>, each a tuple of three integers.
   Everything here is the textbook definition; nothing is transcribed from TFEL. *)
EXTENDS Integers, Sequences
I3 == 1..3
Mat(f(_, _)) == <<<<f(1, 1), f(1, 2), f(1, 3)>>, <<f(2, 1), f(2, 2), f(2, 3)>>, <<f(3, 1), f(3, 2), f(3, 3)>>>>
Zero3 == Mat(LAMBDA i, j : 0)
Id3 == Mat(LAMBDA i, j : IF i = j THEN 1 ELSE 0)
Diag(a, b, c) == <<<<a, 0, 0>>, <<0, b, 0>>, <<0, 0, c>>>>
Transpose(A) == Mat(LAMBDA i, j : A[j][i])
Add(A, B) == Mat(LAMBDA i, j : A[i][j] + B[i][j])
Sub(A, B) == Mat(LAMBDA i, j : A[i][j] - B[i][j])
Scale(k, A) == Mat(LAMBDA i, j : k * A[i][j])
Mul(A, B) == Mat(LAMBDA i, j : A[i][1] * B[1][j] + A[i][2] * B[2][j] + A[i][3] * B[3][j])
Trace(A) == A[1][1] + A[2][2] + A[3][3]
Det(A) == A[1][1] * (A[2][2] * A[3][3] - A[2][3] * A[3][2])
        - A[1][2] * (A[2][1] * A[3][3] - A[2][3] * A[3][1])
        + A[1][3] * (A[2][1] * A[3][2] - A[2][2] * A[3][1])
\* cyclic successor / predecessor of an index
Nx(i) == (i % 3) + 1
Pv(i) == ((i + 1) % 3) + 1
\* adjugate: Adj(A) . A = Det(A) . Id   (so the inverse is Adj(A) / Det(A))
Cof(A, i, j) == A[Nx(i)][Nx(j)] * A[Pv(i)][Pv(j)] - A[Nx(i)][Pv(j)] * A[Pv(i)][Nx(j)]
Adj(A) == Mat(LAMBDA i, j : Cof(A, j, i))
\* Frobenius inner product A : B
Contract(A, B) == A[1][1] * B[1][1] + A[1][2] * B[1][2] + A[1][3] * B[1][3]
                + A[2][1] * B[2][1] + A[2][2] * B[2][2] + A[2][3] * B[2][3]
                + A[3][1] * B[3][1] + A[3][2] * B[3][2] + A[3][3] * B[3][3]
IsSym(A) == \A i, j \in I3 : A[i][j] = A[j][i]
Sym2(A) == Add(A, Transpose(A))                  \* 2 sym(A)
\* 3 x deviator (kept integral)
Dev3(A) == Sub(Scale(3, A), Scale(Trace(A), Id3))
\* change of basis with the columns of R as new basis vectors (passive rotation): R^T . A . R
ChangeBasis(A, R) == Mul(Transpose(R), Mul(A, R))
\* symmetric 3x3 matrix from its six independent components (11, 22, 33, 12, 13, 23)
SymOf(c) == <<<<c[1], c[4], c[5]>>, <<c[4], c[2], c[6]>>, <<c[5], c[6], c[3]>>>>
CompOf(A) == <<A[1][1], A[2][2], A[3][3], A[1][2], A[1][3], A[2][3]>>
\* full matrix <-> nine components in TFEL's tensor order (11 22 33 12 21 13 31 23 32)
FullOf(c) == <<<<c[1], c[4], c[6]>>, <<c[5], c[2], c[8]>>, <<c[7], c[9], c[3]>>>>
Comp9Of(A) == <<A[1][1], A[2][2], A[3][3], A[1][2], A[2][1], A[1][3], A[3][1], A[2][3], A[3][2]>>
RowMajor(A) == <<A[1][1], A[1][2], A[1][3], A[2][1], A[2][2], A[2][3], A[3][1], A[3][2], A[3][3]>>
OfRowMajor(c) == <<<<c[1], c[2], c[3]>>, <<c[4], c[5], c[6]>>, <<c[7], c[8], c[9]>>>>
\* embedding of lower dimensions: 1D = diagonal, 2D = 11 22 33 12
Embed(n, c) == IF n = 1 THEN <<c[1], c[2], c[3], 0, 0, 0>>
               ELSE IF n = 2 THEN <<c[1], c[2], c[3], c[4], 0, 0>> ELSE c
\* the 24 proper signed permutation matrices (rotations of the cube) as a set
Perms3 == {p \in [I3 -> I3] : \A i, j \in I3 : i # j => p[i] # p[j]}
SignedPerm(p, s) == Mat(LAMBDA i, j : IF p[j] = i THEN s[j] ELSE 0)
CubeRotations == {M \in {SignedPerm(p, s) : p \in Perms3, s \in [I3 -> {-1, 1}]} : Det(M) = 1}
\* n-scaled rotation from an integer quaternion q = <<w, x, y, z>>: R = QuatMat(q) / QuatNorm(q)
QuatNorm(q) == q[1] * q[1] + q[2] * q[2] + q[3] * q[3] + q[4] * q[4]
QuatMat(q) == LET w == q[1] x == q[2] y == q[3] z == q[4] IN
   <<<<w*w + x*x - y*y - z*z, 2 * (x*y - w*z), 2 * (x*z + w*y)>>,
     <<2 * (x*y + w*z), w*w - x*x + y*y - z*z, 2 * (y*z - w*x)>>,
     <<2 * (x*z - w*y), 2 * (y*z + w*x), w*w - x*x - y*y + z*z>>>>
=============================================================================

----------------------------- MODULE InputLanguage -----------------------------
(* Token level model of the keyword-driven input languages of TFEL (mfront files: C35; mtest and
   ptest files: C54) and of the mistakes users make when writing them.

   A file is a sequence of statements, a statement is a sequence of tokens, a token is a string.
   A statement starts with a keyword token - @Word - followed by an argument shape, or is a method
   call on a declared variable, and ends with a semi-colon or with the closing brace of its block.
   The class of a token is derived from its first character, exactly as the tokenizer of TFEL does
   (CxxTokenizer: strings, numbers, separators, comments, standard words).

   Mut(k, s) is the near-miss of statement s of kind k (s itself when k does not apply).  The
   mutation operators are the single source of the mutated texts, both for the statements produced
   by the language machines (MFrontInput, MTestInput) and for the statements of the repository's
   own input files, which the driver only splits into tokens.

   Bytes that cannot be written in a TLA+ string are percent encoded (%00, %FF ...); the driver
   decodes the lines when it writes the file; a literal percent sign of a seed is %25. *)
EXTENDS Integers, Sequences, FiniteSets, TLC

NL == "<nl>"            \* pseudo token: line break
Ch(s, i) == SubSeq(s, i, i)
Digits == {"0", "1", "2", "3", "4", "5", "6", "7", "8", "9"}
Separators == {"{", "}", "[", "]", "(", ")", "<", ">", ";", ",", ":", "="}

Class(t) ==
  IF t = NL THEN "nl"
  ELSE IF Len(t) = 0 THEN "empty"
  ELSE LET c == Ch(t, 1) IN
       IF c = "@" THEN "kw"
       ELSE IF c \in Digits THEN "num"
       ELSE IF c = "-" /\ Len(t) > 1 /\ Ch(t, 2) \in Digits THEN "num"
       ELSE IF c = "\"" \/ c = "'" THEN "str"
       ELSE IF t \in Separators THEN t
       ELSE IF c = "/" /\ Len(t) > 1 /\ Ch(t, 2) \in {"/", "*"} THEN "cmt"
       ELSE "word"

\* ---- lexer of the statements written in this specification: tokens are separated by one space
\* (written without recursion on the characters: TLC's evaluation stack is limited)
SpacesOf(s) == {i \in 1..Len(s) : Ch(s, i) = " "}
Lex(s) ==
  LET sp == SpacesOf(s) \cup {0, Len(s) + 1}
      starts == {i \in sp : i <= Len(s) /\ (i + 1) \notin sp}     \* blank just before a token
      NextSp(i) == CHOOSE j \in sp : j > i /\ \A k \in sp : k > i => j <= k
      Nth(k) == CHOOSE i \in starts : Cardinality({j \in starts : j < i}) = k - 1
  IN [k \in 1..Cardinality(starts) |-> SubSeq(s, Nth(k) + 1, NextSp(Nth(k)) - 1)]

\* ---- rendering: tokens joined by one space, NL breaks the line
RECURSIVE JoinToks(_, _)
JoinToks(t, i) == IF i > Len(t) THEN "" ELSE IF i = Len(t) THEN t[i] ELSE t[i] \o " " \o JoinToks(t, i + 1)
\* the recursion is per token of one line only
Lines(t) ==
  LET nls == {i \in 1..Len(t) : t[i] = NL} \cup {0, Len(t) + 1}
      starts == nls \ {Len(t) + 1}
      NextNl(i) == CHOOSE j \in nls : j > i /\ \A k \in nls : k > i => j <= k
      Nth(k) == CHOOSE i \in starts : Cardinality({j \in starts : j < i}) = k - 1
  IN [k \in 1..Cardinality(starts) |-> JoinToks(SubSeq(t, Nth(k) + 1, NextNl(Nth(k)) - 1), 1)]

RECURSIVE Rep(_, _)
Rep(s, n) == IF n = 0 THEN "" ELSE IF n = 1 THEN s
             ELSE LET h == Rep(s, n \div 2) IN IF (n % 2) = 0 THEN h \o h ELSE h \o h \o s

\* ---- helpers on token sequences
OfClass(s, c) == {i \in 1..Len(s) : Class(s[i]) = c}
FirstOf(S) == IF S = {} THEN 0 ELSE CHOOSE i \in S : \A j \in S : i <= j
LastOf(S) == IF S = {} THEN 0 ELSE CHOOSE i \in S : \A j \in S : i >= j
ReplaceTok(s, i, r) == IF i = 0 THEN s ELSE SubSeq(s, 1, i - 1) \o r \o SubSeq(s, i + 1, Len(s))
RemoveTok(s, i) == ReplaceTok(s, i, <<>>)
InsertAfter(s, i, r) == SubSeq(s, 1, i) \o r \o SubSeq(s, i + 1, Len(s))
DropLastChar(t) == SubSeq(t, 1, Len(t) - 1)
IsKw(s) == Len(s) > 0 /\ Class(s[1]) = "kw"
\* the label of a statement in the signatures: its keyword, or (call) for "x.setGlossaryName(...)"
Label(s) == IF IsKw(s) THEN s[1] ELSE IF Len(s) = 0 THEN "(empty)" ELSE "(call)"
\* argument words: the words after the first token
ArgWords(s) == {i \in OfClass(s, "word") : i > 1}
\* the position after which junk is inserted: after the keyword
Balanced(s) ==
  /\ Cardinality(OfClass(s, "{")) = Cardinality(OfClass(s, "}"))
  /\ Cardinality(OfClass(s, "[")) = Cardinality(OfClass(s, "]")) \/ \E i \in 1..Len(s) : s[i] = "in"
  /\ Cardinality(OfClass(s, "(")) = Cardinality(OfClass(s, ")"))
\* a well formed statement: non empty, balanced, closed by ; or }
WellFormed(s) == /\ Len(s) > 0
                 /\ Balanced(s)
                 /\ s[Len(s)] \in {";", "}"}

LongWord == Rep("abcdefghij", 3000)
Deep(o) == Rep(o \o " ", 4000)

\* ---- the mistakes ------------------------------------------------------------------------------
CutKinds == {"eof_after_kw", "eof_mid", "eof_before_end", "other_iface_eof"}   \* the file stops inside the statement

Kinds == <<
  \* delimiters
  "drop_semi", "drop_close", "drop_open", "drop_rbr", "drop_lbr", "drop_rpa", "drop_lpa", "drop_gt",
  "extra_semi", "extra_close", "extra_open", "extra_word", "semi_to_comma",
  \* strings
  "open_str", "open_str_last", "str_to_num", "str_empty", "str_long", "str_nul", "str_utf8", "str_backslash",
  "str_other_quote", "laststr_selfref",
  \* keyword
  "trunc_kw", "no_at", "bare_at", "plural_kw", "double_kw", "kw_as_arg", "empty_arg",
  \* numbers
  "num_to_str", "num_huge", "num_long", "num_neg", "num_zero", "num_nan", "num_badexp", "num_dots",
  "num_hex", "num_to_word", "lastnum_neg", "lastnum_huge", "lastnum_zero", "lastnum_expr",
  \* words
  "word_to_num", "word_to_str", "word_kwlike", "word_long", "word_reserved", "word_utf8", "lastword_to_num",
  "lastword_dup", "lastword_array_neg", "lastword_array_huge", "lastword_array_zero", "lastword_array_open",
  "word_early",
  \* options
  "bad_opt", "empty_opt", "open_opt", "bad_iface", "open_iface",
  \* comments and odd bytes
  "open_comment", "open_comment_after", "close_comment", "line_comment", "nul", "utf8", "bad_utf8",
  "ctrl", "cr", "hash", "hash_include", "rawstr_open", "rawstr_noparen", "lone_quote", "lone_dquote", "backslash",
  "deep_brace", "deep_paren", "deep_bracket", "deep_angle",
  \* whole statement
  "dup", "del", "eof_after_kw", "eof_mid", "eof_before_end", "other_iface_eof" >>
KindSet == {Kinds[i] : i \in 1..Len(Kinds)}

Mut(k, s) ==
  LET n == Len(s)
      semi == LastOf(OfClass(s, ";"))
      str1 == FirstOf(OfClass(s, "str"))
      strL == LastOf(OfClass(s, "str"))
      num1 == FirstOf(OfClass(s, "num"))
      numL == LastOf(OfClass(s, "num"))
      w1 == FirstOf(ArgWords(s))
      wL == LastOf(ArgWords(s))
      end == IF semi # 0 THEN semi - 1 ELSE n     \* insertion point before the final semi-colon
  IN CASE k = "drop_semi" -> RemoveTok(s, semi)
       [] k = "drop_close" -> RemoveTok(s, LastOf(OfClass(s, "}")))
       [] k = "drop_open" -> RemoveTok(s, FirstOf(OfClass(s, "{")))
       [] k = "drop_rbr" -> RemoveTok(s, LastOf(OfClass(s, "]")))
       [] k = "drop_lbr" -> RemoveTok(s, FirstOf(OfClass(s, "[")))
       [] k = "drop_rpa" -> RemoveTok(s, LastOf(OfClass(s, ")")))
       [] k = "drop_lpa" -> RemoveTok(s, FirstOf(OfClass(s, "(")))
       [] k = "drop_gt" -> IF n > 2 /\ s[2] = "<" THEN RemoveTok(s, FirstOf(OfClass(s, ">"))) ELSE s
       [] k = "extra_semi" -> IF n > 1 THEN InsertAfter(s, 1, <<";">>) ELSE s
       [] k = "extra_close" -> s \o <<"}">>
       [] k = "extra_open" -> s \o <<"{">>
       [] k = "extra_word" -> IF n > 1 THEN InsertAfter(s, end, <<"foo">>) ELSE s
       [] k = "semi_to_comma" -> ReplaceTok(s, semi, <<",">>)
       [] k = "open_str" -> IF str1 # 0 /\ Len(s[str1]) > 1 THEN ReplaceTok(s, str1, <<DropLastChar(s[str1])>>) ELSE s
       [] k = "open_str_last" -> IF strL # 0 /\ strL # str1 /\ Len(s[strL]) > 1
                                 THEN ReplaceTok(s, strL, <<DropLastChar(s[strL])>>) ELSE s
       [] k = "str_to_num" -> ReplaceTok(s, str1, <<"42">>)
       \* the last string becomes a formula that refers to the first one: "@Evolution<function> 'f' '2*f+1';" defines f from itself
       [] k = "laststr_selfref" -> IF str1 # 0 /\ strL # str1 /\ Len(s[str1]) > 2
                                   THEN ReplaceTok(s, strL, <<SubSeq(s[str1], 1, 1) \o "2*" \o SubSeq(s[str1], 2, Len(s[str1]) - 1) \o "+1" \o SubSeq(s[str1], 1, 1)>>)
                                   ELSE s
       [] k = "str_empty" -> IF str1 # 0 THEN ReplaceTok(s, str1, <<Ch(s[str1], 1) \o Ch(s[str1], 1)>>) ELSE s
       [] k = "str_long" -> IF str1 # 0 THEN ReplaceTok(s, str1, <<Ch(s[str1], 1) \o LongWord \o Ch(s[str1], 1)>>) ELSE s
       [] k = "str_nul" -> IF str1 # 0 THEN ReplaceTok(s, str1, <<Ch(s[str1], 1) \o "a%00b" \o Ch(s[str1], 1)>>) ELSE s
       [] k = "str_utf8" -> IF str1 # 0 THEN ReplaceTok(s, str1, <<Ch(s[str1], 1) \o "%C3%A9%E2%82%AC%FF" \o Ch(s[str1], 1)>>) ELSE s
       [] k = "str_backslash" -> IF str1 # 0 /\ Len(s[str1]) > 1
                                 THEN ReplaceTok(s, str1, <<DropLastChar(s[str1]) \o "\\" \o Ch(s[str1], 1)>>) ELSE s
       [] k = "str_other_quote" -> IF str1 # 0 /\ Len(s[str1]) > 1
                                   THEN ReplaceTok(s, str1, <<DropLastChar(s[str1]) \o (IF Ch(s[str1], 1) = "'" THEN "\"" ELSE "'")>>) ELSE s
       [] k = "trunc_kw" -> IF IsKw(s) /\ Len(s[1]) > 2 THEN ReplaceTok(s, 1, <<DropLastChar(s[1])>>) ELSE s
       [] k = "no_at" -> IF IsKw(s) /\ Len(s[1]) > 1 THEN ReplaceTok(s, 1, <<SubSeq(s[1], 2, Len(s[1]))>>) ELSE s
       [] k = "bare_at" -> IF IsKw(s) /\ Len(s[1]) > 1 THEN ReplaceTok(s, 1, <<"@">>) ELSE s
       [] k = "plural_kw" -> IF IsKw(s) THEN ReplaceTok(s, 1, <<s[1] \o "s">>) ELSE s
       [] k = "double_kw" -> IF IsKw(s) THEN <<s[1]>> \o s ELSE s
       [] k = "kw_as_arg" -> IF IsKw(s) /\ n > 1 THEN InsertAfter(s, 1, <<s[1]>>) ELSE s
       [] k = "empty_arg" -> IF IsKw(s) /\ n > 2 THEN <<s[1], ";">> ELSE s
       [] k = "num_to_str" -> IF num1 # 0 THEN ReplaceTok(s, num1, <<"\"" \o s[num1] \o "\"">>) ELSE s
       [] k = "num_huge" -> ReplaceTok(s, num1, <<"1e999999">>)
       [] k = "num_long" -> ReplaceTok(s, num1, <<"123456789012345678901234567890">>)
       [] k = "num_neg" -> IF num1 # 0 /\ Ch(s[num1], 1) # "-" THEN ReplaceTok(s, num1, <<"-" \o s[num1]>>) ELSE s
       [] k = "num_zero" -> IF num1 # 0 /\ s[num1] # "0" THEN ReplaceTok(s, num1, <<"0">>) ELSE s
       [] k = "num_nan" -> ReplaceTok(s, num1, <<"nan">>)
       [] k = "num_badexp" -> ReplaceTok(s, num1, <<"1e+">>)
       [] k = "num_dots" -> ReplaceTok(s, num1, <<"1.2.3">>)
       [] k = "num_hex" -> ReplaceTok(s, num1, <<"0x7fffffffffffffffff">>)
       [] k = "num_to_word" -> ReplaceTok(s, num1, <<"foo">>)
       [] k = "lastnum_neg" -> IF numL # 0 /\ numL # num1 /\ Ch(s[numL], 1) # "-" THEN ReplaceTok(s, numL, <<"-" \o s[numL]>>) ELSE s
       [] k = "lastnum_huge" -> IF numL # num1 THEN ReplaceTok(s, numL, <<"4000000000">>) ELSE s
       [] k = "lastnum_zero" -> IF numL # num1 /\ s[numL] # "0" THEN ReplaceTok(s, numL, <<"0">>) ELSE s
       [] k = "lastnum_expr" -> IF numL # 0 THEN ReplaceTok(s, numL, <<"1/0">>) ELSE s
       [] k = "word_to_num" -> ReplaceTok(s, w1, <<"42">>)
       [] k = "word_to_str" -> IF w1 # 0 THEN ReplaceTok(s, w1, <<"\"" \o s[w1] \o "\"">>) ELSE s
       [] k = "word_kwlike" -> IF w1 # 0 THEN ReplaceTok(s, w1, <<"@" \o s[w1]>>) ELSE s
       [] k = "word_long" -> ReplaceTok(s, w1, <<LongWord>>)
       [] k = "word_reserved" -> IF w1 # 0 /\ s[w1] # "class" THEN ReplaceTok(s, w1, <<"class">>) ELSE s
       [] k = "word_utf8" -> IF w1 # 0 THEN ReplaceTok(s, w1, <<s[w1] \o "%C3%A9">>) ELSE s
       \* the first argument word and the token after it moved right behind the first number: "{ 0 , 1 in 10 }" -> "{ 0 in 10 , 1 }"
       [] k = "word_early" -> IF num1 # 0 /\ w1 > num1 + 1 /\ w1 < n
                              THEN SubSeq(s, 1, num1) \o <<s[w1], s[w1 + 1]>> \o SubSeq(s, num1 + 1, w1 - 1) \o SubSeq(s, w1 + 2, n) ELSE s
       [] k = "lastword_to_num" -> IF wL # w1 THEN ReplaceTok(s, wL, <<"42">>) ELSE s
       [] k = "lastword_dup" -> IF wL # 0 THEN InsertAfter(s, wL, <<",", s[wL]>>) ELSE s
       [] k = "lastword_array_neg" -> IF wL # 0 /\ IsKw(s) THEN InsertAfter(s, wL, <<"[", "-1", "]">>) ELSE s
       [] k = "lastword_array_huge" -> IF wL # 0 /\ IsKw(s) THEN InsertAfter(s, wL, <<"[", "4000000000", "]">>) ELSE s
       [] k = "lastword_array_zero" -> IF wL # 0 /\ IsKw(s) THEN InsertAfter(s, wL, <<"[", "0", "]">>) ELSE s
       [] k = "lastword_array_open" -> IF wL # 0 /\ IsKw(s) THEN InsertAfter(s, wL, <<"[", "2">>) ELSE s
       [] k = "bad_opt" -> IF IsKw(s) THEN InsertAfter(s, 1, <<"<", "Foo", ">">>) ELSE s
       [] k = "empty_opt" -> IF IsKw(s) THEN InsertAfter(s, 1, <<"<", ">">>) ELSE s
       [] k = "open_opt" -> IF IsKw(s) THEN InsertAfter(s, 1, <<"<", "Append", ",">>) ELSE s
       [] k = "bad_iface" -> IF IsKw(s) THEN InsertAfter(s, 1, <<"[", "foo", "]">>) ELSE s
       [] k = "open_iface" -> IF IsKw(s) THEN InsertAfter(s, 1, <<"[", "generic">>) ELSE s
       [] k = "open_comment" -> <<"/*">> \o s
       [] k = "open_comment_after" -> s \o <<"/*">>
       [] k = "close_comment" -> <<"*/">> \o s
       [] k = "line_comment" -> <<"//">> \o s
       [] k = "nul" -> IF n > 0 THEN InsertAfter(s, 1, <<"%00">>) ELSE s
       [] k = "utf8" -> IF n > 0 THEN InsertAfter(s, 1, <<"%C3%A9%E2%82%AC">>) ELSE s
       [] k = "bad_utf8" -> IF n > 0 THEN InsertAfter(s, 1, <<"%FF%FE%80%C0">>) ELSE s
       [] k = "ctrl" -> IF n > 0 THEN InsertAfter(s, 1, <<"%01%1B%7F">>) ELSE s
       [] k = "cr" -> IF n > 0 THEN InsertAfter(s, 1, <<"%0D">>) ELSE s
       [] k = "hash" -> IF n > 0 THEN InsertAfter(s, 1, <<"#">>) ELSE s
       [] k = "hash_include" -> <<"#include", "\"nofile\"", NL>> \o s
       [] k = "rawstr_open" -> IF n > 0 THEN InsertAfter(s, 1, <<"R\"x(">>) ELSE s
       \* a raw string prefix whose delimiter is never opened by a parenthesis on the line
       [] k = "rawstr_noparen" -> IF n > 0 THEN InsertAfter(s, 1, <<"R\"doc">>) ELSE s
       [] k = "lone_quote" -> IF n > 0 THEN InsertAfter(s, 1, <<"'">>) ELSE s
       [] k = "lone_dquote" -> IF n > 0 THEN InsertAfter(s, 1, <<"\"">>) ELSE s
       [] k = "backslash" -> IF n > 0 THEN InsertAfter(s, 1, <<"\\">>) ELSE s
       [] k = "deep_brace" -> IF n > 0 THEN InsertAfter(s, 1, <<Deep("{")>>) ELSE s
       [] k = "deep_paren" -> IF n > 0 THEN InsertAfter(s, 1, <<Deep("(")>>) ELSE s
       [] k = "deep_bracket" -> IF n > 0 THEN InsertAfter(s, 1, <<Deep("[")>>) ELSE s
       [] k = "deep_angle" -> IF n > 0 THEN InsertAfter(s, 1, <<Deep("<")>>) ELSE s
       [] k = "dup" -> IF n > 0 THEN s \o <<NL>> \o s ELSE s
       [] k = "del" -> <<>>
       [] k = "eof_after_kw" -> IF n > 1 THEN <<s[1]>> ELSE s
       [] k = "eof_mid" -> IF n > 3 THEN SubSeq(s, 1, (n + 1) \div 2) ELSE s
       [] k = "eof_before_end" -> IF n > 2 THEN SubSeq(s, 1, n - 1) ELSE s
       \* a keyword of another interface, restricted to that interface (the tool skips such statements), and the file ends before
       \* the last token of the statement
       [] k = "other_iface_eof" -> IF IsKw(s) /\ n > 2 THEN <<"@CastemOutputPrecision", "[", "castem", "]">> \o SubSeq(s, 2, n - 1) ELSE s
       [] OTHER -> s

\* the mistakes that apply to statement s: a mistake that leaves the statement unchanged does not apply
Mutants(s, kinds, foreign) ==
  {[mut |-> k, param |-> "", toks |-> Mut(k, s), cut |-> IF k \in CutKinds THEN 1 ELSE 0] :
      k \in {kk \in kinds : Mut(kk, s) # s}}
  \cup (IF IsKw(s) THEN {[mut |-> "foreign_kw", param |-> f, toks |-> ReplaceTok(s, 1, <<f>>), cut |-> 0] :
                            f \in foreign \ {s[1]}} ELSE {})

\* ---- files that are not made of statements: short sequences of adversarial atoms (the empty file included) ----
RawCore == {"@", ";", "{", "}", "\"", "'", "/*", "#", "\\", "%00", "<", "[", "@Foo", "1e"}
RawMore == {"*/", "//", "%FF%FE", ">", "(", "R\"x(", "-", "%0A", ":", ",", "=", "%0D", "@@", "in"}
RawFiles(atoms, n) == UNION {[1..k -> atoms] : k \in 0..n}

\* ---- outcomes of a run of a tool on a file (shared by the judges of C35 and C54) ----------------
(* An observation carries: rc (exit status, 0 when signalled), sig (signal number, 0 if none),
   to (1 = killed by the driver after the time limit), san (1 = sanitizer report in the output),
   term (1 = "terminate called after throwing an instance of" present), stdexc (1 = the thrown
   object is a std::exception: a what() line is present), what (1 = the what() text is not empty),
   msg (1 = the tool printed something), err (1 = the output contains an error diagnostic of the tool).
   Error reporting through std::terminate's verbose handler - an uncaught std::exception with a
   non empty what(), then SIGABRT - is how mtest and mfront-query report errors when built with
   libstdc++ (their main() has no try block in that case): it is counted as error reporting. *)
\* mistakes that ask the tool for a huge amount of work (4 000 000 000 time steps, elements, array entries): a run
\* that is still working at the time limit is then not a hang; it is counted apart
Amplifying == {"lastnum_huge", "lastword_array_huge"}
Outcome(o) ==
  IF o.to = 1 THEN (IF o.mut \in Amplifying THEN "timeout_amplified" ELSE "timeout")
  ELSE IF o.san = 1 THEN "sanitizer"
  ELSE IF o.sig = 0 THEN (IF o.rc = 0 THEN (IF o.err = 1 THEN "error_with_status_0" ELSE "ok")
                          ELSE IF o.msg = 1 THEN "error" ELSE "silent_error")
  ELSE IF o.sig = 6 /\ o.term = 1 /\ o.stdexc = 1 /\ o.what = 1 THEN "error_by_terminate"
  ELSE IF o.sig = 6 THEN "abort"
  ELSE "signal"
Admissible == {"ok", "error", "error_by_terminate", "timeout_amplified"}
=============================================================================

------------------------------- MODULE TraceIO -------------------------------
(* Shared plumbing of the trace-validation specifications (JUDGE, DESIGN.md 2.2).
   The recorded behaviour is an ndjson file named by the environment variable TRACE; every
   trace action has the shape  IsEvent("Name") /\ <bind logged fields> /\ SpecAction(args).
   Acceptance: the driver reads the line "MAXL n" printed by the post-condition; the trace is
   accepted iff n = Len(Tr) + 1, i.e. every recorded event was matched by a spec action.
   Needs -workers 1 (TLC registers are per worker). *)
EXTENDS Integers, Sequences, TLC, Json, IOUtils

Tr == ndJsonDeserialize(IOEnv.TRACE)

VARIABLE l          \* position of the next event to consume

Ev == Tr[l]
IsEvent(e) == l <= Len(Tr) /\ Tr[l].e = e /\ l' = l + 1

\* register 1 = furthest position reached; updated from a state CONSTRAINT (always TRUE)
ASSUME TLCSet(1, 0)
TrackMaxL == IF l > TLCGet(1) THEN TLCSet(1, l) ELSE TRUE
ReportMaxL == PrintT(<<"MAXL", TLCGet(1), "LEN", Len(Tr)>>)
=============================================================================

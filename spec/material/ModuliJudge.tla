------------------------------ MODULE ModuliJudge ------------------------------
(* JUDGE for C21.  Observation = the case plus
     supported : the call compiles (the PLATE convention ...)
     q         : the outputs, each multiplied by S (and divided by 2^p when stress-like) and rounded
     tight     : every output was within 1e-7 (relative) of an integer after scaling, and finite
     sym, spd, iso : the tensor is symmetric / its Cholesky factorisation exists / isIsotropic(C, 1e-12) *)
EXTENDS ModuliExpect, Judge
Check(name, b) == IF b THEN {} ELSE {name}
Tag(o) == IF o.kind = "conv" THEN o.src
          ELSE IF o.kind = "iso3d" THEN o.pert
          ELSE o.api \o ":" \o o.h \o ":" \o (IF o.alt = 1 THEN "ALTERED" ELSE "UNALTERED") \o (IF o.kind = "ortho" THEN ":" \o o.conv ELSE "")
Fails(o) ==
  LET ex == Expected(o)
      want == [k \in 1..Len(ex) |-> ex[k][1] * (o.S \div ex[k][2])]
  IN  IF ~o.supported THEN {"unsupported:" \o Tag(o)}
      ELSE Check("scaling", o.S = LCMSeq(ex))
           \cup Check("values:" \o o.kind \o ":" \o Tag(o), o.tight /\ Len(o.q) = Len(ex) /\ \A k \in 1..Len(ex) : o.q[k] = want[k])
           \cup (IF o.kind = "iso3d"
                 THEN Check("symmetric", o.sym)
                      \cup Check("positive-definite", o.pert # "none" \/ o.spd)
                      \cup Check("isIsotropic:" \o o.pert, o.iso = ExpectedIsotropic(o))
                 ELSE {})
           \cup (IF o.kind \in {"isoH", "ortho"} /\ o.alt = 0 /\ o.api # "Alter"
                 THEN Check("symmetric:" \o o.kind, o.sym) \cup Check("positive-definite:" \o o.kind, o.spd) ELSE {})
ASSUME JudgeAll(Fails)
=============================================================================

----------------------------- MODULE ModuliExpect -----------------------------
(* The exact expected outputs of a C21 case (shared by GEN, which only derives the integer scaling S from them,
   and JUDGE, which compares them with the observations). *)
EXTENDS Moduli
ModuliOf(c) == From(c.src, c.a, c.b)
Expected(c) ==
  IF c.kind = "conv"
  THEN \* ToYoungNu (young, nu), ToLambdaMu (lambda, mu), ToKG (kappa, mu), computeLambda / computeMu, round trip
       LET m == ModuliOf(c) IN <<m.young, m.nu, m.lambda, m.mu, m.kappa, m.mu, m.lambda, m.mu, c.a, c.b>>
  ELSE IF c.kind = "iso3d"
  THEN \* the 36 components of the (possibly perturbed) tensor, then computeKGModuli of it
       LET m == ModuliOf(c)
           C == Perturbed(Iso3D(m), c.pert, m)
           pr == Proj(C)
       IN  Flat(C, 6) \o <<pr.kappa, pr.mu>>
  ELSE IF c.kind = "isoH" THEN Flat(IsoStiffness(ModuliOf(c), c.h, c.alt = 1 /\ HasAltered(c.h)), Size(c.h))
  ELSE Flat(Stiffness(c.P, c.h, c.alt = 1 /\ HasAltered(c.h), c.conv), Size(c.h))
ExpectedIsotropic(c) == IsIsotropicTensor(Perturbed(Iso3D(ModuliOf(c)), c.pert, ModuliOf(c)))
=============================================================================

--------------------------- MODULE HypothesesJudge ---------------------------
EXTENDS Hypotheses, Judge
Fails(o) == CASE o.kind = "table" -> TableFails(o)
              [] o.kind = "undefined" -> UndefinedFails(o)
              [] o.kind = "list" -> ListFails(o)
              [] o.kind = "unknown" -> UnknownFails(o)
              [] o.kind = "sfe" -> SfeFails(o)
              [] o.kind = "hill" -> HillFails(o)
              [] o.kind = "stiff" -> StiffFails(o)
              [] OTHER -> {"unknown-kind"}
ASSUME JudgeAll(Fails)
=============================================================================

---------------------------- MODULE SlipSystemsJudge ----------------------------
(* observation: systems = list of <<b, n>> integer pairs returned for the family; flags computed by the harness
   on the floating-point data: unit (normals and directions of unit length), orth (n.b = 0), parallel (the
   floating vectors are parallel to the integer ones), tensors (orientation tensor = direction (x) normal),
   schmid (every Schmid factor of 26 lattice loading directions within [-1/2, 1/2]), schmidval (cubic lattices: one factor per
   system, equal to (d.m)(d.n) for the unit loading direction d), ranks (every ordered
   pair of systems has a rank, self-interaction has its own rank), threw (the family was refused) *)
EXTENDS SlipSystems, SlipSystemsHCP, Judge
Check(name, b) == IF b THEN {} ELSE {name}
FailsHCP(o) ==
  IF o.threw = 1 THEN {"hcp:family-refused"}
  ELSE LET S == {CanonSys4(o.systems[i]) : i \in 1..Len(o.systems)} IN
       Check("hcp:systems-set", S = FamilyHCP(o.b, o.n))
       \cup Check("hcp:duplicates-up-to-sign", Cardinality(S) = Len(o.systems))
       \cup Check("hcp:integer-orthogonality", \A i \in 1..Len(o.systems) : Dot4(o.systems[i][1], o.systems[i][2]) = 0)
       \cup Check("hcp:unit-vectors", o.unit = 1) \cup Check("hcp:orthogonal-vectors", o.orth = 1)
       \cup Check("hcp:orientation-tensors", o.tensors = 1) \cup Check("hcp:schmid-factor-range", o.schmid = 1)
       \cup Check("hcp:interaction-ranks", o.ranksym = 1)
Fails(o) ==
  IF o.structure = "HCP" THEN FailsHCP(o)
  ELSE IF o.threw = 1 THEN {"family-refused"}
  ELSE LET S == {CanonSys(o.systems[i]) : i \in 1..Len(o.systems)} IN
       Check("systems-set", S = Family(o.b, o.n))
       \cup Check("duplicates-up-to-sign", Cardinality(S) = Len(o.systems))
       \cup Check("integer-orthogonality", \A i \in 1..Len(o.systems) : Dot(o.systems[i][1], o.systems[i][2]) = 0)
       \cup Check("unit-vectors", o.unit = 1) \cup Check("orthogonal-vectors", o.orth = 1) \cup Check("directions", o.parallel = 1)
       \cup Check("orientation-tensors", o.tensors = 1) \cup Check("schmid-factor-range", o.schmid = 1)
       \cup Check("schmid-factor-values", o.schmidval = 1)
       \cup Check("interaction-ranks", o.ranksym = 1)
ASSUME JudgeAll(Fails)
=============================================================================

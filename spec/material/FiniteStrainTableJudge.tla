----------------------- MODULE FiniteStrainTableJudge -----------------------
(* JUDGE for the graph part of C23: the table of conversions chained by MFront and the list of flags, as observed on
   the real libraries (harness/fstable.cxx), must be those of the specification, on which GraphTheorems are checked. *)
EXTENDS FiniteStrain, Judge
TypeOf(f) == IF f \in T2toST2 THEN "t2tost2" ELSE IF f \in T2toT2 THEN "t2tot2" ELSE "st2tost2"
Fails(o) ==
  LET tab == {o.table[i] : i \in 1..Len(o.table)}
      fl  == {o.flags[i] : i \in 1..Len(o.flags)}
  IN  {"table:unexpected:" \o t[1] \o ">" \o t[2] : t \in tab \ MFrontTable}
      \cup {"table:missing:" \o t[1] \o ">" \o t[2] : t \in MFrontTable \ tab}
      \cup {"table:no-converter:" \o t[1] \o ">" \o t[2] : t \in {t \in tab : <<t[2], t[1]>> \notin Edges}}
      \cup (IF fl = {<<f, TypeOf(f)>> : f \in Flags} THEN {} ELSE {"flags"})
ASSUME GraphTheorems
ASSUME JudgeAll(Fails)
=============================================================================

------------------------------ MODULE CriteriaGen ------------------------------
(* GEN for C22: criteria x parameter sets x stress lattices x dimensions, written as ndjson for harness/criteria.cxx.
   TIER = "quick" | "thorough" (environment). *)
EXTENDS Criteria, TLC, Json, IOUtils, SequencesExt
Thorough == IOEnv.TIER = "thorough"
Z6 == <<0, 0, 0, 0, 0, 0>>
\* ---- stress lattices
DiagVals2 == IF Thorough THEN -2..2 ELSE {-1, 0, 2}
DiagVals3 == {-1, 0, 2}
Shear2 == -1..1
Shear3 == IF Thorough THEN {<<0, 0, 0>>, <<1, 0, 0>>, <<0, 1, 0>>, <<0, 0, 1>>, <<1, -1, 1>>, <<1, 2, 0>>, <<0, -1, 2>>, <<2, 1, 1>>}
          ELSE {<<0, 0, 0>>, <<1, 0, 0>>, <<0, 0, 1>>, <<1, -1, 1>>, <<1, 2, 0>>}
Stress(n) == IF n = 1 THEN {<<a, b, c, 0, 0, 0>> : a \in -2..2, b \in -2..2, c \in -2..2}
             ELSE IF n = 2 THEN {<<a, b, c, d, 0, 0>> : a \in DiagVals2, b \in DiagVals2, c \in DiagVals2, d \in Shear2}
             ELSE {<<a, b, c, h[1], h[2], h[3]>> : a \in DiagVals3, b \in DiagVals3, c \in DiagVals3, h \in Shear3}
AllStresses == Stress(1) \cup Stress(2) \cup Stress(3)
\* ---- parameter sets
P(crit, par, pd) == [crit |-> crit, par |-> par, pd |-> pd, fn |-> 0, fd |-> 1]
PF(crit, par, pd, fn, fd) == [crit |-> crit, par |-> par, pd |-> pd, fn |-> fn, fd |-> fd]
Ones(n) == [i \in 1..n |-> 1]
Times(k, v) == [i \in 1..Len(v) |-> k * v[i]]
\* Barlat coefficients in 1/8: a mildly orthotropic set (different for the two transformations)
BarlatC1 == <<7, 9, 8, 10, 6, 8, 9, 7, 8>>
BarlatC2 == <<9, 8, 6, 8, 10, 7, 8, 10, 9>>
\* Cazacu coefficients in 1/4
CazA == <<4, 5, 6, 7, 8, 9>>
CazB == <<1, 2, 3, 2, 1, 2, 3, 2, 1, 2, 3>>
ParamSets ==
  {P("mises", <<0>>, 1)}
  \cup {P("hill", <<1, 1, 1, 3, 3, 3>>, 2), P("hill", <<1, 2, 3, 4, 5, 6>>, 2)}
  \cup {P("hosford", <<a>>, 2) : a \in {2, 4, 5, 6, 8, 12, 16, 200}}             \* a = 1, 2, 5/2, 3, 4, 6, 8, 100
  \cup {P("barlat", <<a>> \o Times(8, Ones(18)), 8) : a \in {16, 24, 32, 48, 64}}  \* unit coefficients, a = 2, 3, 4, 6, 8
  \cup {P("barlat", <<48>> \o BarlatC1 \o BarlatC2, 8), P("barlat", <<64>> \o BarlatC2 \o BarlatC2, 8)}
  \cup {P("drucker", <<c>>, 4) : c \in {0, 4, 6, 9, -8}}                          \* c = 0, 1, 3/2, 9/4, -2
  \cup {P("cazacu2001", <<c>> \o Times(4, Ones(17)), 4) : c \in {4, 6}}
  \cup {P("cazacu2001", <<2>> \o CazA \o CazB, 4)}
  \cup {P("cazacu2004iso", <<c>>, 4) : c \in {0, 4, -8, 5}}                       \* c = 0, 1, -2, 5/4
  \cup {P("cazacu2004ortho", <<c>> \o Times(4, Ones(17)), 4) : c \in {0, 4}}
  \cup {P("cazacu2004ortho", <<2>> \o CazA \o CazB, 4)}
  \cup {P("mohrcoulomb", <<2, 0, 50, 0>>, 2),                                     \* c = 1, phi = 0, lodeT = 25 deg
        P("mohrcoulomb", <<6, 60, 50, 1>>, 2),                                    \* c = 3, phi = 30, lodeT = 25, a = 1/2
        P("mohrcoulomb", <<0, 40, 58, 0>>, 2),                                    \* homogeneous: c = 0, a = 0, phi = 20, lodeT = 29
        \* small transition angles: most lattice stresses are then in the rounded (Abbo-Sloan) branch |lode| >= lodeT
        P("mohrcoulomb", <<6, 60, 20, 1>>, 2),                                    \* c = 3, phi = 30, lodeT = 10, a = 1/2
        P("mohrcoulomb", <<0, 40, 30, 0>>, 2)}                                    \* homogeneous: c = 0, a = 0, phi = 20, lodeT = 15
  \cup {PF("gtn", <<1, 4, 24, 16, 36>>, 16, f[1], f[2]) : f \in {<<0, 1>>, <<1, 64>>, <<1, 32>>, <<1, 8>>}}  \* fc 1/16 fr 1/4 q 3/2 1 9/4
  \cup {PF("gtn", <<1, 4, 32, 16, 48>>, 16, 1, 32)}                                                          \* q1 = 2, q3 = 3
  \cup {PF("rtb", <<3, 2>>, 2, f[1], f[2]) : f \in {<<0, 1>>, <<1, 8>>, <<1, 16>>}}                          \* DR = 3/2, qR = 1
  \cup {PF("rtb", <<4, 3>>, 2, 1, 8)}
  \cup {PF("ms", <<n>>, 1, f[1], f[2]) : n \in {1, 3, 10}, f \in {<<0, 1>>, <<1, 32>>}}
  \cup {PF("ms", <<3>>, 1, 1, 4)}
\* ---- cases
Base(ps, n, s, eps, t, k, kind) ==
  LET c == [crit |-> ps.crit, par |-> ps.par, pd |-> ps.pd, fn |-> ps.fn, fd |-> ps.fd, n |-> n, s |-> s, eps |-> eps, t |-> t, k |-> k]
      e == Expect(c)
  IN  c @@ [pw |-> e[1], mul |-> e[2], kind |-> kind, tr |-> SetToSeq({[m |-> t2.m, g |-> t2.g] : t2 \in Group(c)})]
Lattice == UNION {{Base(ps, n, s, Z6, 0, 0, "lattice") : ps \in ParamSets, s \in Stress(n)} : n \in 1..3}
\* a few stresses replayed at other binary scales (Mohr-Coulomb has absolute thresholds: not below 1)
Probe(n) == IF n = 1 THEN {<<1, 0, -2, 0, 0, 0>>, <<2, 2, -1, 0, 0, 0>>}
            ELSE IF n = 2 THEN {<<1, 0, -2, 1, 0, 0>>, <<2, 2, -1, 0, 0, 0>>} ELSE {<<1, 0, -2, 1, -1, 1>>, <<0, 0, 0, 1, 0, 0>>}
Scaled == UNION {{Base(ps, n, s, Z6, 0, k, "scaled") : ps \in ParamSets, s \in Probe(n), k \in (IF Thorough THEN {30, -20, 10, -10} ELSE {30, -20})} : n \in 1..3}
\* nearly coincident principal stresses (eigen-based criteria): gap 2^-20 (far above seps = 2^-40) and 2^-45 (below)
NearS(n) == IF n = 3 THEN {<<2, 2, -1, 0, 0, 0>>, <<1, 1, 1, 1, 0, 0>>, <<0, 0, 0, 1, 1, 1>>, <<1, 0, 0, 0, 0, 0>>}
            ELSE {<<2, 2, -1, 0, 0, 0>>, <<1, -1, -1, 0, 0, 0>>, <<1, 0, 0, 0, 0, 0>>}
Near == UNION {{Base(ps, n, s, <<1, 0, 0, 0, 0, 0>>, t, 0, "near") : ps \in {q \in ParamSets : q.crit \in {"hosford", "barlat"}},
                                                                     s \in NearS(n), t \in (IF Thorough THEN {20, 30, 45} ELSE {20, 45})} : n \in 1..3}
Cases == Lattice \cup {c \in Scaled : c.crit # "mohrcoulomb" \/ c.k > 0} \cup Near
Number(S) == LET q == SetToSeq(S) IN [i \in 1..Len(q) |-> [id |-> i] @@ q[i]]
ASSUME Theorems(AllStresses \cup {<<a, b, c, 0, 0, 0>> : a \in -3..3, b \in -3..3, c \in -3..3})
\* the case kinds the judge relies on are present
ASSUME \A cr \in {"mises", "hill", "hosford", "barlat", "drucker", "cazacu2001", "cazacu2004iso", "cazacu2004ortho", "mohrcoulomb", "gtn", "rtb", "ms"} :
          /\ \E c \in Cases : c.crit = cr /\ c.pw > 0
          /\ \E c \in Cases : c.crit = cr /\ Singular(c)
          /\ \E c \in Cases : c.crit = cr /\ ~Singular(c) /\ Coincident(c.s)
          /\ \A n \in 1..3 : \E c \in Cases : c.crit = cr /\ c.n = n /\ ~Singular(c) /\ ~Coincident(c.s)
ASSUME ndJsonSerialize(IOEnv.OUT, Number(Cases))
ASSUME PrintT(<<"GEN", Cardinality(Lattice), Cardinality(Scaled), Cardinality(Near)>>)
=============================================================================

--------------------------- MODULE HomogenizationGen ---------------------------
(* GEN for C25 (harness/homogenization.cxx). TIER = "quick" | "thorough" (environment). *)
EXTENDS Homogenization, TLC, Json, IOUtils, SequencesExt
Thorough == IOEnv.TIER = "thorough"
\* ---- bounds: 1..5 phases, moduli from a small lattice, fractions in eighths (zero and one included)
Ks == IF Thorough THEN {1, 2, 4, 10} ELSE {1, 4, 10}
Gs == IF Thorough THEN {1, 2, 3, 6} ELSE {1, 3, 6}
Moduli == {<<k, g>> : k \in Ks, g \in Gs}
Fracs(n) == {f \in [1..n -> 0..8] : SumInts(f) = 8}
Pairs == {<<a, b>> : a \in Moduli, b \in Moduli}
Phase2 == {[K |-> <<p[1][1], p[2][1]>>, G |-> <<p[1][2], p[2][2]>>, f |-> f] : p \in Pairs, f \in {<<8, 0>>, <<7, 1>>, <<4, 4>>, <<1, 7>>, <<0, 8>>, <<5, 3>>}}
\* three to five phases: ordered, badly ordered (stiff bulk with soft shear) and repeated moduli
Sets3 == {<<<<1, 1>>, <<4, 3>>, <<10, 6>>>>, <<<<10, 1>>, <<1, 6>>, <<4, 3>>>>, <<<<4, 3>>, <<4, 3>>, <<4, 3>>>>, <<<<4, 1>>, <<4, 3>>, <<4, 6>>>>,
          <<<<1, 3>>, <<4, 3>>, <<10, 3>>>>, <<<<10, 6>>, <<4, 3>>, <<1, 1>>>>}
F3 == {<<4, 2, 2>>, <<1, 1, 6>>, <<8, 0, 0>>, <<0, 8, 0>>, <<4, 4, 0>>, <<0, 3, 5>>, <<6, 1, 1>>}
Phase3 == {[K |-> <<s[1][1], s[2][1], s[3][1]>>, G |-> <<s[1][2], s[2][2], s[3][2]>>, f |-> f] : s \in Sets3, f \in F3}
Phase4 == {[K |-> <<1, 4, 10, 2>>, G |-> <<1, 3, 6, 6>>, f |-> f] : f \in {<<2, 2, 2, 2>>, <<5, 1, 1, 1>>, <<0, 0, 8, 0>>, <<1, 0, 3, 4>>}}
          \cup {[K |-> <<4, 4, 4, 4>>, G |-> <<3, 3, 3, 3>>, f |-> <<2, 2, 2, 2>>], [K |-> <<10, 1, 4, 1>>, G |-> <<1, 6, 1, 3>>, f |-> <<1, 3, 2, 2>>]}
Phase5 == {[K |-> <<1, 2, 4, 10, 4>>, G |-> <<1, 6, 3, 2, 3>>, f |-> f] : f \in {<<2, 2, 2, 1, 1>>, <<4, 1, 1, 1, 1>>, <<0, 0, 0, 0, 8>>, <<1, 1, 1, 5, 0>>}}
          \cup {[K |-> <<2, 2, 2, 2, 2>>, G |-> <<6, 6, 6, 6, 6>>, f |-> <<1, 2, 3, 1, 1>>]}
Phase1 == {[K |-> <<m[1]>>, G |-> <<m[2]>>, f |-> <<8>>] : m \in Moduli}
PhaseSets == Phase1 \cup Phase2 \cup Phase3 \cup Phase4 \cup Phase5
BoundCase(ph, d) == LET c == [kind |-> "bounds", d |-> d, K |-> ph.K, G |-> ph.G, f |-> ph.f] IN
                    c @@ [mK |-> Mult(BoundsK(c), OnK(c)), mG |-> Mult(BoundsG(c), OnG(c))]
BoundsCases == {BoundCase(ph, d) : ph \in PhaseSets, d \in 2..3}
\* ---- two-phase schemes: spheres, and ellipsoids degenerating to spheres / genuine ellipsoids
Shapes == {<<1, 1, 1>>, <<2, 2, 2>>, <<2, 1, 1>>, <<1, 1, 4>>, <<3, 2, 1>>}
Axes == {<<1, 2>>, <<2, 3>>, <<3, 1>>}
BiCase(p, f, sh, ax) == LET c == [kind |-> "biphasic", K0 |-> p[1][1], G0 |-> p[1][2], Ki |-> p[2][1], Gi |-> p[2][2], f |-> f,
                                   shape |-> sh, na |-> ax[1], nb |-> ax[2]] IN
                        c @@ [m |-> [i \in 1..4 |-> IF BiphasicOn(c)[i] THEN Biphasic(c)[i][2] ELSE 0]]
BiPairs == IF Thorough THEN Pairs ELSE {p \in Pairs : p[1][1] # 4 /\ p[2][2] # 3} \cup {<<<<4, 3>>, <<4, 3>>>>}
BiCases == {BiCase(p, f, sh, <<1, 2>>) : p \in BiPairs, f \in {0, 1, 2, 4, 7, 8}, sh \in Shapes}
           \cup {BiCase(p, 2, sh, ax) : p \in {<<<<1, 1>>, <<10, 6>>>>, <<<<10, 6>>, <<1, 3>>>>}, sh \in Shapes, ax \in Axes}
\* ---- N-phase microstructures (inclusion families: spheres; optionally the last one is a family of ellipsoids)
MicroSets == {[K0 |-> 1, G0 |-> 1, K |-> <<10>>, G |-> <<6>>], [K0 |-> 10, G0 |-> 6, K |-> <<1>>, G |-> <<1>>],
              [K0 |-> 4, G0 |-> 3, K |-> <<4>>, G |-> <<3>>],
              [K0 |-> 1, G0 |-> 1, K |-> <<4, 10>>, G |-> <<3, 6>>], [K0 |-> 10, G0 |-> 6, K |-> <<4, 1>>, G |-> <<3, 1>>],
              [K0 |-> 4, G0 |-> 3, K |-> <<1, 10>>, G |-> <<1, 6>>], [K0 |-> 4, G0 |-> 1, K |-> <<1, 10>>, G |-> <<6, 3>>],
              [K0 |-> 2, G0 |-> 3, K |-> <<1, 4, 10>>, G |-> <<1, 3, 6>>], [K0 |-> 1, G0 |-> 1, K |-> <<2, 4, 10, 2>>, G |-> <<2, 3, 6, 1>>]}
MicroF(n) == IF n = 1 THEN {<<0>>, <<1>>, <<4>>, <<7>>}
             ELSE IF n = 2 THEN {<<0, 0>>, <<1, 1>>, <<2, 4>>, <<0, 3>>, <<5, 2>>}
             ELSE IF n = 3 THEN {<<1, 1, 1>>, <<2, 0, 3>>, <<0, 0, 0>>} ELSE {<<1, 1, 1, 1>>, <<2, 1, 0, 3>>}
MicroCase(s, f, sh) == LET c == [kind |-> "micro", K0 |-> s.K0, G0 |-> s.G0, K |-> s.K, G |-> s.G, f |-> f, shape |-> sh] IN
                       c @@ [m |-> IF ExactMicro(c) THEN <<MicroMTK(c)[2], MicroMTG(c)[2]>> ELSE <<0, 0>>]
MicroCases == UNION {{MicroCase(s, f, sh) : f \in MicroF(Len(s.K)), sh \in {<<1, 1, 1>>, <<2, 1, 1>>, <<3, 2, 1>>}} : s \in MicroSets}
\* ---- Eshelby / Hill / localisation tensors: nu = p / q, semi-axes, axes permutation, near-sphere perturbations
Nus == {<<0, 1>>, <<1, 4>>, <<1, 5>>, <<-1, 2>>, <<2, 5>>, <<1, 3>>}
EShapes == {<<1, 1, 1>>, <<2, 1, 1>>, <<1, 2, 2>>, <<8, 1, 1>>, <<1, 8, 8>>, <<3, 2, 1>>, <<1, 2, 3>>, <<2, 3, 1>>, <<5, 4, 4>>}
\* component map of the Hill tensor under the relabelling of the axes (a along na, b along nb, c along the third)
Third(a, b) == CHOOSE k \in 1..3 : k # a /\ k # b
PairIdx(i, j) == IF i = j THEN i ELSE IF {i, j} = {1, 2} THEN 4 ELSE IF {i, j} = {1, 3} THEN 5 ELSE 6
PairOf6 == <<<<1, 1>>, <<2, 2>>, <<3, 3>>, <<1, 2>>, <<1, 3>>, <<2, 3>>>>
\* global axis g carries the local axis Loc[g]; component (i, j) of the rotated tensor = component (Loc[i], Loc[j]) of the reference one
PermMap(na, nb) == LET loc == [g \in 1..3 |-> IF g = na THEN 1 ELSE IF g = nb THEN 2 ELSE 3] IN
                   [a \in 1..6 |-> PairIdx(loc[PairOf6[a][1]], loc[PairOf6[a][2]])]
ECase(nu, sh, ax, pert, t, an, mi) == [kind |-> "eshelby", p |-> nu[1], q |-> nu[2], shape |-> sh, na |-> ax[1], nb |-> ax[2],
                                        perm |-> PermMap(ax[1], ax[2]), pert |-> pert, t |-> t, aniso |-> an, Ki |-> mi[1], Gi |-> mi[2]]
ECases == {ECase(nu, sh, <<1, 2>>, <<0, 0, 0>>, 0, 0, <<10, 6>>) : nu \in Nus, sh \in EShapes}
          \cup {ECase(<<1, 4>>, sh, ax, <<0, 0, 0>>, 0, 1, mi) : sh \in EShapes, ax \in {<<1, 2>>, <<2, 1>>, <<2, 3>>, <<3, 1>>, <<3, 2>>, <<1, 3>>},
                                                               mi \in {<<1, 1>>, <<10, 6>>}}
          \* sphere limit: a perturbation of one or two semi-axes by 2^-t, below (2^-20, 2^-14) and above (2^-10, 2^-6) the switch of the code
          \cup {ECase(nu, <<1, 1, 1>>, <<1, 2>>, pe, t, 0, <<10, 6>>) : nu \in {<<1, 4>>, <<2, 5>>}, pe \in {<<1, 0, 0>>, <<0, 1, 1>>, <<1, -1, 0>>, <<0, 0, -1>>},
                                                                       t \in {20, 14, 12, 10, 6}}
Cases == BoundsCases \cup BiCases \cup MicroCases \cup ECases
Number(S) == LET s == SetToSeq(S) IN [i \in 1..Len(s) |-> [id |-> i] @@ s[i]]
ASSUME \A c \in BoundsCases : BoundsTheorem(c)
ASSUME \A c \in BiCases : BiphasicTheorem(c)
ASSUME \A c \in MicroCases : MicroTheorem(c)
\* the case kinds the judge relies on
ASSUME /\ \E c \in BoundsCases : c.mK[2] > 0 /\ c.mG[2] > 0 /\ c.d = 2
       /\ \E c \in BoundsCases : Len(c.K) = 5 /\ ~OnePhase(c.K, c)
       /\ \E c \in BoundsCases : Len(c.K) = 3 /\ ~ExtremesPresent(c)
       /\ \E c \in BiCases : c.f = 0 /\ ~SamePhases2(c)
       /\ \E c \in BiCases : c.f = 7 /\ DiluteAdmissible(c) /\ c.Ki < c.K0
       /\ \E c \in MicroCases : c.m[1] > 0 /\ Len(c.K) = 2
ASSUME ndJsonSerialize(IOEnv.OUT, Number(Cases))
ASSUME PrintT(<<"GEN", Cardinality(BoundsCases), Cardinality(BiCases), Cardinality(MicroCases), Cardinality(ECases)>>)
=============================================================================

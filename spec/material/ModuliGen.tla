------------------------------- MODULE ModuliGen -------------------------------
(* GEN for C21.  Inputs are rationals <<n, d>>; p is a binary exponent applied by the harness to every stress-like
   input (and removed from every stress-like output): the expected values do not depend on it.  S is the integer
   scaling of the EXACT abstraction: the lcm of the denominators of the expected outputs of the case. *)
EXTENDS Moduli, ModuliExpect, TLC, Json, IOUtils, SequencesExt
Thorough == IOEnv.TIER = "thorough"
Q(n, d) == RNorm(n, d)
Nus == {Q(-3, 4), Q(-1, 4), Q(0, 1), Q(1, 8), Q(1, 4), Q(1, 3), Q(7, 16)} \cup (IF Thorough THEN {Q(-1, 2), Q(3, 8), Q(-7, 8), Q(3, 10)} ELSE {})
Es == {RI(1), RI(3), RI(10)} \cup (IF Thorough THEN {RI(7), Q(21, 2)} ELSE {})
Ps == {0, 37} \cup (IF Thorough THEN {-20} ELSE {})
YNs == {<<"YN", E, nu>> : E \in Es, nu \in Nus}
KGs == {<<"KG", RI(k), RI(g)>> : k \in {1, 2, 5}, g \in {1, 3}} \cup (IF Thorough THEN {<<"KG", Q(k, 2), Q(g, 3)>> : k \in 1..4, g \in 1..4} ELSE {})
LMs == {t \in {<<"LM", RI(l), RI(m)>> : l \in {-1, 0, 2, 5}, m \in {2, 3}} : RLt(RI(0), From(t[1], t[2], t[3]).kappa)}
Srcs == YNs \cup KGs \cup LMs
AllModuli == {From(t[1], t[2], t[3]) : t \in Srcs}
ASSUME \A m \in AllModuli : Admissible(m)
ASSUME ModuliTheorems(AllModuli)
\* (on the moduli with small denominators: the exact 6x6 computations of the theorems stay within 32-bit integers)
ASSUME StiffnessTheorems({m \in AllModuli : m.nu[2] <= 8 /\ m.young[2] <= 3 /\ m.mu[2] <= 8})
WithS(c) == [c EXCEPT !.S = LCMSeq(Expected(c))]
Conv == {WithS([kind |-> "conv", src |-> t[1], a |-> t[2], b |-> t[3], p |-> p, pert |-> "none", h |-> "TRIDIMENSIONAL", alt |-> 0,
                api |-> "moduli", conv |-> "DEFAULT", P |-> IsoParams(From(t[1], t[2], t[3])), S |-> 1]) : t \in Srcs, p \in Ps}
Iso3 == {WithS([kind |-> "iso3d", src |-> t[1], a |-> t[2], b |-> t[3], p |-> p, pert |-> pert, h |-> "TRIDIMENSIONAL", alt |-> 0,
                api |-> "moduli", conv |-> "DEFAULT", P |-> IsoParams(From(t[1], t[2], t[3])), S |-> 1]) :
            t \in Srcs, p \in Ps, pert \in {"none", "shear", "c12"}}
IsoH0 == {([kind |-> "isoH", src |-> t[1], a |-> t[2], b |-> t[3], p |-> p, pert |-> "none", h |-> h, alt |-> alt,
                api |-> api, conv |-> "DEFAULT", P |-> IsoParams(From(t[1], t[2], t[3])), S |-> 1]) :
            t \in YNs, p \in Ps, h \in Hyps, alt \in 0..1, api \in {"StiffnessTensor", "Lame", "Alter"}}
\* orthotropic constants: distinct shear moduli so that any exchange of axes is visible
ETriples == {<<1, 1, 1>>, <<1, 2, 4>>, <<4, 2, 1>>} \cup (IF Thorough THEN {<<2, 4, 2>>, <<4, 1, 2>>, <<2, 2, 1>>, <<1, 4, 4>>} ELSE {})
NTriples == {<<Q(0, 1), Q(0, 1), Q(0, 1)>>, <<Q(1, 4), Q(1, 4), Q(1, 4)>>, <<Q(1, 4), Q(1, 8), Q(-1, 8)>>, <<Q(3, 8), Q(0, 1), Q(1, 4)>>,
             <<Q(1, 8), Q(1, 2), Q(1, 4)>>}
            \cup (IF Thorough THEN {<<Q(-1, 4), Q(3, 8), Q(1, 8)>>, <<Q(1, 2), Q(1, 4), Q(0, 1)>>, <<Q(1, 8), Q(1, 8), Q(3, 8)>>, <<Q(0, 1), Q(1, 4), Q(-1, 4)>>} ELSE {})
Orthos == {P \in {[E |-> <<RI(e[1]), RI(e[2]), RI(e[3])>>, n |-> n, G |-> <<RI(1), RI(2), RI(3)>>] : e \in ETriples, n \in NTriples} : AdmissibleOrtho(P)}
Ortho0 == {([kind |-> "ortho", src |-> "", a |-> RI(0), b |-> RI(0), p |-> p, pert |-> "none", h |-> h, alt |-> alt,
                 api |-> api, conv |-> c, P |-> P, S |-> 1]) :
            P \in Orthos, p \in Ps, h \in Hyps, alt \in 0..1, c \in Convs, api \in {"conv", "hyp", "Alter"}}
\* alt = 1 only where an altered tensor exists or through the generic ComputeAlteredStiffnessTensor; "hyp" is the
\* overload without convention; PLATE only where it is defined
Keep(c) == /\ (c.alt = 1 => (HasAltered(c.h) \/ c.api = "Alter"))
           /\ (c.api = "Alter" => c.alt = 1)
           /\ (c.api \in {"hyp", "Alter"} => c.conv = "DEFAULT")
           /\ ValidConv(c.conv, c.h)
IsoH == {WithS(c) : c \in {c \in IsoH0 : Keep(c)}}
Ortho == {WithS(c) : c \in {c \in Ortho0 : Keep(c)}}
Cases == SetToSeq(Conv) \o SetToSeq(Iso3) \o SetToSeq(IsoH) \o SetToSeq(Ortho)
Numbered == [i \in 1..Len(Cases) |-> [id |-> i] @@ Cases[i]]
\* the scaled expected values stay far from TLC's 32-bit limit
ASSUME \A i \in 1..Len(Cases) : LET ex == Expected(Cases[i]) IN \A k \in 1..Len(ex) : AbsI(ex[k][1]) * (Cases[i].S \div ex[k][2]) < 500000000
\* vacuity: the generator produced non-isotropic orthotropic sets, every hypothesis, both alterations, the three conventions
ASSUME Cardinality(Orthos) >= 12 /\ \E P \in Orthos : P.E[1] # P.E[2] /\ P.E[2] # P.E[3] /\ P.n[1] # P.n[2] /\ P.n[2] # P.n[3]
ASSUME {<<Cases[i].h, Cases[i].alt>> : i \in 1..Len(Cases)} = (Hyps \X {0}) \cup (Hyps \X {1})
ASSUME {Cases[i].conv : i \in 1..Len(Cases)} = Convs
ASSUME ndJsonSerialize(IOEnv.OUT, Numbered)
ASSUME PrintT(<<"GEN", Len(Cases), Cardinality(Orthos)>>)
=============================================================================

-------------------------------- MODULE Langevin --------------------------------
(* C26 - the approximations of the inverse Langevin function invert the Langevin function
   L(x) = coth(x) - 1/x  (TFEL/Material/InverseLangevinFunction.hxx, docs/web/tfel-material.md).

   This module is the decision table: which approximations exist, what the documentation claims about each of
   them, and therefore which obligations an observation (approximation a, argument y) has to meet.  The numbers
   themselves are irrational: the harness measures (in long double) and reports integers / booleans:
     sgn      sign of f(y);  finite
     odd      |f(-y) + f(y)| <= 4 ulp
     rbits    floor(-log2 |L(f(y)) - y|)              (64 when the residual is below 2^-64)
     relbits  floor(-log2 (|L(f(y)) - y| / |y|))      (y # 0)
     polebits floor(-log2 (|(1 - |L(f(y))|) - (1 - |y|)| / (1 - |y|)))
     vsame    the value returned by the AndDerivative variant is within 4 ulp of the plain value
     dok      the returned derivative is within 1e-6 (relative) of a central difference of the plain function evaluated in long double
     dpos     the returned derivative is > 0
     alias    (KUHN_GRUN_1942) bitwise equal to MORCH_2022
   What the repository documents (no numeric accuracy is given anywhere; "See Jedynak for a quantitative discussion"):
     - every item is an approximation of L^-1, an odd increasing function with L^-1(0) = 0, slope 3 at 0 and a pole at 1;
     - COHEN_1991 = y (3 - y^2) / (1 - y^2), JEDYNAK_2015 = y N(y) / D(y), Bergstrom-Boyce = 1 / (sign(y) - y) near the pole:
       these have the pole of L^-1 at |y| = 1;
     - KUHN_GRUN_1942 and MORCH_2022 are the same Taylor expansion of L^-1 at 0, of order 19 (hence a residual O(y^21)
       and no pole: "all those approximations mostly differ near the pole").
   Accuracy is therefore judged with the weakest reading of "inverts the Langevin function":
     - at the resolution of the coarse lattice k/16, L o f is the identity:       |L(f(y)) - y| < 2^-4
     - near 0 (|y| < 1/16) and near the pole (1 - |y| < 1/16, approximations with a pole) the same holds in relative terms:
       the relative error on y, respectively on 1 - |y|, is below 1/2
     - Taylor expansion of order 19 (series with positive coefficients c_k < 2.3, L' <= 1/3):  |L(f(y)) - y| <= 2 |y|^21, checked
       at |y| = 1/4 and |y| = 1/2 where it is above the noise of the long double evaluation: rbits >= 41, resp. 20. *)
EXTENDS Integers, Sequences, FiniteSets, Rat
Approximations == {"COHEN_1991", "JEDYNAK_2015", "MORCH_2022", "KUHN_GRUN_1942", "BERGSTROM_BOYCE_1998"}
HasPole(a) == a \in {"COHEN_1991", "JEDYNAK_2015", "BERGSTROM_BOYCE_1998"}
IsTaylor(a) == a \in {"MORCH_2022", "KUHN_GRUN_1942"}
RAbs(y) == <<AbsI(y[1]), y[2]>>
\* a/b < c/d without products (the lattice has denominators up to 2^28): compare integer parts, then the reciprocals of the remainders
RECURSIVE LessQ(_, _, _, _)
LessQ(a, b, c, d) ==
  LET qa == a \div b
      qc == c \div d
      ra == a % b
      rc == c % d
  IN  IF qa # qc THEN qa < qc
      ELSE IF rc = 0 THEN FALSE
      ELSE IF ra = 0 THEN TRUE
      ELSE LessQ(d, rc, b, ra)
Lt(u, v) == LessQ(u[1], u[2], v[1], v[2])
Sign(y) == IF y[1] > 0 THEN 1 ELSE IF y[1] < 0 THEN -1 ELSE 0
Zone(y) == IF y[1] = 0 THEN "zero"
           ELSE IF Lt(RAbs(y), <<1, 16>>) THEN "origin"
           ELSE IF Lt(<<y[2] - AbsI(y[1]), y[2]>>, <<1, 16>>) THEN "pole"
           ELSE "coarse"
InDomain(y) == Lt(RAbs(y), <<1, 1>>)
\* accuracy obligations: set of <<name, field, minimum>>
Accuracy(a, y) ==
  (IF Zone(y) = "coarse" THEN {<<"cell", "rbits", 4>>} ELSE {})
  \cup (IF Zone(y) = "origin" THEN {<<"origin", "relbits", 1>>} ELSE {})
  \cup (IF Zone(y) = "pole" /\ HasPole(a) THEN {<<"pole", "polebits", 1>>, <<"cell", "rbits", 4>>} ELSE {})
  \cup (IF IsTaylor(a) /\ RAbs(y) = <<1, 4>> THEN {<<"taylor19", "rbits", 41>>} ELSE {})
  \cup (IF IsTaylor(a) /\ RAbs(y) = <<1, 2>> THEN {<<"taylor19", "rbits", 20>>} ELSE {})
=============================================================================

------------------------------- MODULE BoundsGen -------------------------------
EXTENDS Bounds, TLC, Json, IOUtils, SequencesExt
\* entities: scalar double, scalar quantity, stensor of dimension n (3, 4, 6 components) of doubles / quantities;
\* tensor cases: one or two components take every value of Values, the others stay inside (= 1)
Size(n) == IF n = 1 THEN 3 ELSE IF n = 2 THEN 4 ELSE 6
OneOff(n) == {[i \in 1..Size(n) |-> IF i = k THEN v ELSE 1] : k \in 1..Size(n), v \in Values}
TwoOff(n) == {[i \in 1..Size(n) |-> IF i = 1 THEN v ELSE IF i = Size(n) THEN w ELSE 1] : v \in Values, w \in Values}
\* scalars and scalar quantities go through the overloads inherited / redefined by BoundsCheck<n> for each n
Cases == {[entity |-> e, n |-> n, kind |-> k, policy |-> p, vs |-> <<v>>] : e \in {"double", "quantity"}, n \in 1..3, k \in Kinds, p \in Policies, v \in Values}
         \cup UNION {{[entity |-> e, n |-> n, kind |-> k, policy |-> p, vs |-> vs] :
                       e \in {"stensor", "qstensor"}, k \in Kinds, p \in Policies, vs \in OneOff(n) \cup TwoOff(n)} : n \in 1..3}
Number(S) == LET s == SetToSeq(S) IN [i \in 1..Len(s) |-> [id |-> i] @@ s[i]]
ASSUME ndJsonSerialize(IOEnv.OUT, Number(Cases))
ASSUME PrintT(<<"GEN", Cardinality(Cases)>>)
=============================================================================

----------------------------- MODULE SlipSystemsHCP -----------------------------
(* C56 - hexagonal close-packed lattices, Miller-Bravais indices.
   A direction is [u v t w] with u + v + t = 0, a plane is (h k i l) with h + k + i = 0; the direction lies in the plane
   iff h u + k v + i t + l w = 0 (the four-index dot product).  The systems of a family are the images (g b, g n) of its
   generator under the 24 operations of the hexagonal point group 6/mmm written on four indices: the 6 permutations of the
   three in-plane indices, composed or not with their common change of sign (rotation of pi about c), composed or not with
   the change of sign of the fourth index (mirror through the basal plane).  Two systems are the same when they differ by
   the signs of b and / or n.  Indices are reduced by their gcd. *)
EXTENDS Integers, Sequences, FiniteSets
I3 == 1..3
Dot4(u, v) == u[1] * v[1] + u[2] * v[2] + u[3] * v[3] + u[4] * v[4]
AbsV(x) == IF x < 0 THEN -x ELSE x
RECURSIVE Gcd(_, _)
Gcd(a, b) == IF b = 0 THEN a ELSE Gcd(b, a % b)
Gcd4(v) == Gcd(Gcd(Gcd(AbsV(v[1]), AbsV(v[2])), AbsV(v[3])), AbsV(v[4]))
Reduce4(v) == LET g == Gcd4(v) IN <<v[1] \div g, v[2] \div g, v[3] \div g, v[4] \div g>>
Canon4(v) == LET s == IF v[1] # 0 THEN v[1] ELSE IF v[2] # 0 THEN v[2] ELSE IF v[3] # 0 THEN v[3] ELSE v[4] IN
             IF s < 0 THEN <<-v[1], -v[2], -v[3], -v[4]>> ELSE v
Valid4(v) == v # <<0, 0, 0, 0>> /\ v[1] + v[2] + v[3] = 0
Perms == {p \in [I3 -> I3] : \A i, j \in I3 : i # j => p[i] # p[j]}
Act4(p, s, m, v) == <<s * v[p[1]], s * v[p[2]], s * v[p[3]], m * v[4]>>
FamilyHCP(b, n) == {<<Canon4(Act4(p, s, m, Reduce4(b))), Canon4(Act4(p, s, m, Reduce4(n)))>> : p \in Perms, s \in {-1, 1}, m \in {-1, 1}}
CanonSys4(sys) == <<Canon4(Reduce4(sys[1])), Canon4(Reduce4(sys[2]))>>
\* classical cardinalities: basal <a> 3, prismatic <a> 3, pyramidal <a> 6, first-order pyramidal <c+a> 12, second-order pyramidal <c+a> 6
TheoremsHCP == /\ Cardinality(FamilyHCP(<<1, 1, -2, 0>>, <<0, 0, 0, 1>>)) = 3
               /\ Cardinality(FamilyHCP(<<1, 1, -2, 0>>, <<1, -1, 0, 0>>)) = 3
               /\ Cardinality(FamilyHCP(<<1, 1, -2, 0>>, <<1, -1, 0, 1>>)) = 6
               /\ Cardinality(FamilyHCP(<<1, 1, -2, 3>>, <<1, -1, 0, 1>>)) = 12
               /\ Cardinality(FamilyHCP(<<1, 1, -2, 3>>, <<1, 1, -2, -2>>)) = 6
=============================================================================

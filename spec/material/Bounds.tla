--------------------------------- MODULE Bounds ---------------------------------
(* C27 - out-of-bounds policies (tfel::material::BoundsCheck, OutOfBoundsPolicy).
   Decision table: a check of kind "lower" | "upper" | "both" with inclusive bounds L <= U on a value v
   (for tensors: on each component) under policy "None" | "Warning" | "Strict" | "default" (= Strict):
     outside = v < L (lower, both) or v > U (upper, both)
     throws  <=> outside and policy in {Strict, default};  warns <=> outside and policy = Warning *)
EXTENDS Integers, Sequences, FiniteSets
L == 0
U == 2
Outside(kind, v) == (kind \in {"lower", "both"} /\ v < L) \/ (kind \in {"upper", "both"} /\ v > U)
AnyOutside(kind, vs) == \E i \in 1..Len(vs) : Outside(kind, vs[i])
Throws(kind, policy, vs) == AnyOutside(kind, vs) /\ policy \in {"Strict", "default"}
\* number of warnings: one per offending component, unless an exception interrupts (Strict)
Warnings(kind, policy, vs) == IF policy = "Warning" THEN Cardinality({i \in 1..Len(vs) : Outside(kind, vs[i])}) ELSE 0
Kinds == {"lower", "upper", "both"}
Policies == {"None", "Warning", "Strict", "default"}
Values == -1..3                       \* below, on the lower bound, inside, on the upper bound, above
=============================================================================

----------------------------- MODULE Homogenization -----------------------------
(* C25 - homogenisation bounds are ordered and schemes consistent.

   Phases are isotropic with integer bulk and shear moduli K[i], G[i] and volume fractions f[i] / 8.
   Everything the property speaks about is a rational function of these data, so the specification computes the
   truth with exact rationals (Rat.tla):
     Voigt  = sum f x          Reuss = 1 / sum f / x
     Hashin-Shtrikman(-Walpole), dimension d:   x_HS = 1 / sum f / (xref + x) - xref   with
         Kref = 2 (d-1) / d  G_ext,    Gref = H_ext,   H(K, G) = G (d K / 2 + (d+1)(d-2) G / d) / (K + 2 G)
         (ext = minimum over the phases for the lower bound, maximum for the upper bound);
     spherical inclusions (index i) in a matrix (index 0), volume fraction f:
         dilute        x = x0 + f (xi - x0) / (1 + a0 (xi - x0) / x0)          a0 = alpha0 (bulk), beta0 (shear)
         Mori-Tanaka   x = x0 + f (xi - x0) / (1 + (1-f) (xi - x0) / (x0 + x0ref))  x0ref = 4 G0 / 3, H(K0, G0)
         alpha0 = 3 K0 / (3 K0 + 4 G0),  beta0 = 6 (K0 + 2 G0) / (5 (3 K0 + 4 G0))  (Eshelby tensor of the sphere)
     N phases of spheres, Mori-Tanaka:   x = 1 / sum_r f_r / (x_r + x0ref) - x0ref      (matrix included in the sum)
     Eshelby tensor of a sphere, Poisson ratio nu = p / q:  S = alpha J + beta K,
         alpha = (1 + nu) / (3 (1 - nu)),  beta = 2 (4 - 5 nu) / (15 (1 - nu));
     for ANY ellipsoid in an isotropic matrix (shear modulus G, Poisson ratio nu) the traces are shape independent:
         S_ijij = 3,  S_iijj = (1 + nu) / (1 - nu),  P_iijj = (1 - 2 nu) / (2 G (1 - nu)),  P_ijij = (3 - 4 nu) / (2 G (1 - nu))
         (P = S : C0^-1 is the Hill polarisation tensor; it has the major symmetry).
   The property itself (ordering of the bounds, Mori-Tanaka = Hashin-Shtrikman bound for an extreme matrix, reductions
   to the matrix) is checked by TLC on these definitions for the whole lattice (Theorems), and the code is bound to
   the definitions by exact comparison; where the exact value is out of reach of 32 bit rationals (more phases) or
   irrational (self-consistent scheme, spheroids) the judge uses ranks and residual classes. *)
EXTENDS Integers, Sequences, FiniteSets, Rat

RECURSIVE RSumSeq(_)
RSumSeq(s) == IF Len(s) = 0 THEN RI(0) ELSE RAdd(s[1], RSumSeq(Tail(s)))
RInv(a) == RDiv(RI(1), a)
RMin(a, b) == IF RLe(a, b) THEN a ELSE b
RMax(a, b) == IF RLe(a, b) THEN b ELSE a
REq(a, b) == a[1] * b[2] = b[1] * a[2]
N(c) == Len(c.K)
Frac(c, i) == <<c.f[i], 8>>
Present(c) == {i \in 1..N(c) : c.f[i] > 0}
Voigt(x, c) == RSumSeq([i \in 1..N(c) |-> RMul(Frac(c, i), RI(x[i]))])
Reuss(x, c) == RInv(RSumSeq([i \in 1..N(c) |-> RDiv(Frac(c, i), RI(x[i]))]))
\* Hashin-Shtrikman reference moduli
KStar(d, g) == RMul(<<2 * (d - 1), d>>, g)
HOf(d, k, g) == RDiv(RMul(RI(g), RAdd(<<d * k, 2>>, <<(d + 1) * (d - 2) * g, d>>)), RI(k + 2 * g))
HSForm(xs, fr, star) == RSub(RInv(RSumSeq([i \in 1..Len(xs) |-> RDiv(fr[i], RAdd(star, xs[i]))])), star)
RSeq(x) == [i \in 1..Len(x) |-> RI(x[i])]
Fr(c) == [i \in 1..N(c) |-> Frac(c, i)]
RECURSIVE RExt(_, _)
RExt(S, lower) == LET x == CHOOSE y \in S : TRUE IN
                  IF Cardinality(S) = 1 THEN x
                  ELSE (IF lower THEN RMin(x, RExt(S \ {x}, lower)) ELSE RMax(x, RExt(S \ {x}, lower)))
\* extremes over the phases that are present (positive fraction)
GExt(c, lower) == RExt({RI(c.G[i]) : i \in Present(c)}, lower)
HExt(c, lower) == RExt({HOf(c.d, c.K[i], c.G[i]) : i \in Present(c)}, lower)
HSK(c, lower) == HSForm(RSeq(c.K), Fr(c), KStar(c.d, GExt(c, lower)))
HSG(c, lower) == HSForm(RSeq(c.G), Fr(c), HExt(c, lower))
\* the code takes the extremes over all the listed phases: the exact comparison is made when that makes no difference
ExtremesPresent(c) == \A i \in 1..N(c) : c.f[i] = 0 =>
                          /\ \E j \in Present(c) : c.G[j] <= c.G[i]
                          /\ \E j \in Present(c) : c.G[j] >= c.G[i]
                          /\ \E j \in Present(c) : RLe(HOf(c.d, c.K[j], c.G[j]), HOf(c.d, c.K[i], c.G[i]))
                          /\ \E j \in Present(c) : RLe(HOf(c.d, c.K[i], c.G[i]), HOf(c.d, c.K[j], c.G[j]))
\* 32 bit rationals: exact Hashin-Shtrikman values for at most three phases (bulk) / two phases (shear)
ExactHSK(c) == ExtremesPresent(c) /\ N(c) <= 3
ExactHSG(c) == ExtremesPresent(c) /\ N(c) <= 2
\* <<Reuss, HS lower, HS upper, Voigt>> as rationals; <<0, 1>> placeholders when not computed
BoundsK(c) == <<IF c.d = 3 THEN Reuss(c.K, c) ELSE RI(0), IF ExactHSK(c) THEN HSK(c, TRUE) ELSE RI(0),
                IF ExactHSK(c) THEN HSK(c, FALSE) ELSE RI(0), IF c.d = 3 THEN Voigt(c.K, c) ELSE RI(0)>>
BoundsG(c) == <<IF c.d = 3 THEN Reuss(c.G, c) ELSE RI(0), IF ExactHSG(c) THEN HSG(c, TRUE) ELSE RI(0),
                IF ExactHSG(c) THEN HSG(c, FALSE) ELSE RI(0), IF c.d = 3 THEN Voigt(c.G, c) ELSE RI(0)>>
\* multipliers sent to the harness (0 = not compared) and the integers it must find
Mult(b, on) == [i \in 1..4 |-> IF on[i] THEN b[i][2] ELSE 0]
Want(b, on) == [i \in 1..4 |-> IF on[i] THEN b[i][1] ELSE 0]
OnK(c) == <<c.d = 3, ExactHSK(c), ExactHSK(c), c.d = 3>>
OnG(c) == <<c.d = 3, ExactHSG(c), ExactHSG(c), c.d = 3>>
\* what ranks must look like: non decreasing; all equal when the present phases share the modulus, strictly
\* increasing from first to last otherwise
OnePhase(x, c) == \A i, j \in Present(c) : x[i] = x[j]
NonDecreasing(r) == \A i \in 1..(Len(r) - 1) : r[i] >= 0 /\ r[i] <= r[i + 1]
RanksOk(r, x, c) == /\ NonDecreasing(r)
                    /\ (OnePhase(x, c) => r[1] = r[Len(r)])
                    /\ (~OnePhase(x, c) => r[1] < r[Len(r)])

---------------------------------------------------------------------------------
(* two-phase schemes with spherical inclusions: c = [K0, G0, Ki, Gi, f] *)
F2(c) == <<c.f, 8>>
Alpha0(c) == <<3 * c.K0, 3 * c.K0 + 4 * c.G0>>
Beta0(c) == RNorm(6 * (c.K0 + 2 * c.G0), 5 * (3 * c.K0 + 4 * c.G0))
DiluteOf(x0, xi, a0, f) == RAdd(RI(x0), RDiv(RMul(f, RI(xi - x0)), RAdd(RI(1), RDiv(RMul(a0, RI(xi - x0)), RI(x0)))))
MTOf(x0, xi, star, f) == RAdd(RI(x0), RDiv(RMul(f, RI(xi - x0)),
                                           RAdd(RI(1), RDiv(RMul(RSub(RI(1), f), RI(xi - x0)), RAdd(RI(x0), star)))))
DiluteK(c) == DiluteOf(c.K0, c.Ki, RNorm(Alpha0(c)[1], Alpha0(c)[2]), F2(c))
DiluteG(c) == DiluteOf(c.G0, c.Gi, Beta0(c), F2(c))
MTK(c) == MTOf(c.K0, c.Ki, <<4 * c.G0, 3>>, F2(c))
MTG(c) == MTOf(c.G0, c.Gi, HOf(3, c.K0, c.G0), F2(c))
AsBounds(c) == [d |-> 3, K |-> <<c.K0, c.Ki>>, G |-> <<c.G0, c.Gi>>, f |-> <<8 - c.f, c.f>>]
Biphasic(c) == <<DiluteK(c), DiluteG(c), MTK(c), MTG(c)>>
\* the dilute estimate is a first order expansion in f: for large fractions of soft inclusions it predicts non positive
\* moduli, which are outside the domain of every conversion between elastic constants; it is then not compared
DiluteAdmissible(c) == DiluteK(c)[1] > 0 /\ DiluteG(c)[1] > 0
BiphasicOn(c) == <<DiluteAdmissible(c), DiluteAdmissible(c), TRUE, TRUE>>
IsSphere(sh) == sh[1] = sh[2] /\ sh[2] = sh[3]
SamePhases2(c) == c.K0 = c.Ki /\ c.G0 = c.Gi

---------------------------------------------------------------------------------
(* N-phase particulate microstructure with spheres, Mori-Tanaka: c = [K0, G0, K, G, f] (inclusions), matrix 8 - sum f *)
RECURSIVE SumInts(_)
SumInts(s) == IF Len(s) = 0 THEN 0 ELSE s[1] + SumInts(Tail(s))
F0(c) == 8 - SumInts(c.f)
AllK(c) == <<c.K0>> \o c.K
AllG(c) == <<c.G0>> \o c.G
AllF(c) == <<<<F0(c), 8>>>> \o [i \in 1..Len(c.f) |-> <<c.f[i], 8>>]
MicroMTK(c) == HSForm(RSeq(AllK(c)), AllF(c), <<4 * c.G0, 3>>)
MicroMTG(c) == HSForm(RSeq(AllG(c)), AllF(c), HOf(3, c.K0, c.G0))
ExactMicro(c) == Len(c.K) <= 2 /\ IsSphere(c.shape)
NoInclusion(c) == \A i \in 1..Len(c.f) : c.f[i] = 0 \/ (c.K[i] = c.K0 /\ c.G[i] = c.G0)

---------------------------------------------------------------------------------
(* Eshelby tensor of the sphere, nu = p / q:  45 (q - p) S = (21 q - 15 p, -3 q + 15 p, 6 (4 q - 5 p), 0)
   for the components (1111, 1122, 2 x 1212 (the shear entry of the 6 x 6 matrix), 1112) *)
SphereS(p, q) == <<21 * q - 15 * p, 15 * p - 3 * q, 6 * (4 * q - 5 * p), 0>>
\* traces times (1, q - p, 2 (q - p), 2 (q - p)) for G = 1
Traces(p, q) == <<3, q + p, q - 2 * p, 3 * q - 4 * p>>

---------------------------------------------------------------------------------
(* Theorems: the property holds for the definitions, on the lattice handed to the code. *)
BoundsTheorem(c) ==
  /\ (c.d = 3 /\ ExactHSK(c)) =>
        LET b == <<Reuss(c.K, c), HSK(c, TRUE), HSK(c, FALSE), Voigt(c.K, c)>> IN
        /\ RLe(b[1], b[2]) /\ RLe(b[2], b[3]) /\ RLe(b[3], b[4])
        /\ (OnePhase(c.K, c) => REq(b[1], b[4]))
  /\ (c.d = 3 /\ ExactHSG(c)) =>
        LET b == <<Reuss(c.G, c), HSG(c, TRUE), HSG(c, FALSE), Voigt(c.G, c)>> IN
        /\ RLe(b[1], b[2]) /\ RLe(b[2], b[3]) /\ RLe(b[3], b[4])
        /\ (OnePhase(c.G, c) => REq(b[1], b[4]))
BiphasicTheorem(c) ==
  LET b == AsBounds(c) IN
  \* Mori-Tanaka with the softest (stiffest) matrix is the lower (upper) Hashin-Shtrikman bound
  /\ (c.f > 0 /\ c.f < 8 /\ c.K0 <= c.Ki /\ c.G0 <= c.Gi) => REq(MTK(c), HSK(b, TRUE)) /\ REq(MTG(c), HSG(b, TRUE))
  /\ (c.f > 0 /\ c.f < 8 /\ c.K0 >= c.Ki /\ c.G0 >= c.Gi) => REq(MTK(c), HSK(b, FALSE)) /\ REq(MTG(c), HSG(b, FALSE))
  \* zero fraction and identical phases give the matrix; dilute and Mori-Tanaka share their first order
  /\ (c.f = 0 \/ SamePhases2(c)) => \A i \in 1..4 : REq(Biphasic(c)[i], RI(<<c.K0, c.G0, c.K0, c.G0>>[i]))
  /\ (c.f = 8) => REq(MTK(c), RI(c.Ki)) /\ REq(MTG(c), RI(c.Gi))
MicroTheorem(c) ==
  (ExactMicro(c) /\ Len(c.K) = 1) =>
     LET b == [K0 |-> c.K0, G0 |-> c.G0, Ki |-> c.K[1], Gi |-> c.G[1], f |-> c.f[1]] IN
     REq(MicroMTK(c), MTK(b)) /\ REq(MicroMTG(c), MTG(b))
=============================================================================

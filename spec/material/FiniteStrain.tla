----------------------------- MODULE FiniteStrain -----------------------------
(* C23 - finite-strain tangent operator and stress conversions are exact.

   (i)  Meaning.  A hyperelastic response is given by its second Piola-Kirchhoff stress as a function of the
        Green-Lagrange strain,  S(E) = S0 + Dse : E  with Dse = 2 Dp an integer fourth order tensor with major and
        minor symmetries (W = S0 : E + E : Dse : E / 2), i.e.  S(F) = S0 + Dp : (F^T F - I).  The other stress
        measures are DEFINED from S and F in index notation on integer matrices (Mat3T.tla):
             tau = F.S.F^T,   sigma = tau / J,   P = F.S  (= tau.F^-T),   J = det F.
        The tangent operator of a flag is DEFINED as the derivative of its stress measure with respect to its
        kinematic variable (FiniteStrainBehaviourTangentOperatorBase.hxx, docs/web/abaqus.md):
             DS_DEGL = dS/dE, DS_DC = dS/dC, DS_DF = dS/dF, DTAU_DF = dtau/dF, DSIG_DF = dsigma/dF, DPK1_DF = dP/dF,
             DTAU_DDF, DSIG_DDF: with respect to DF = F1.F0^-1 (a direction H of DF is the direction H.F0 of F),
             SPATIAL_MODULI Cs:  F.dS.F^T = Cs : dD,   C_TAU_JAUMANN CtJ:  dtau - dW.tau + tau.dW = CtJ : dD,
             C_TRUESDELL = Cs / J,   ABAQUS = CtJ / J,    with dL = dF.F^-1, dD = sym dL, dW = skew dL.
        For a symmetric direction Dd the perturbation dF = Dd.F has dD = Dd and dW = 0, so the two rate moduli are
        read on such perturbations.  Everything is polynomial in F: the derivatives are obtained EXACTLY by the integer
        stencils of Derivatives.tla (C06), the quotient rule giving sigma.  No conversion formula of the code is
        transcribed: the truth of every flag is computed independently from the law.
   (ii) Graph.  Nodes = flags, edges = the specialisations of FiniteStrainBehaviourTangentOperatorConverter
        (Edges, read from the table of FiniteStrainBehaviourTangentOperator.ixx; the harness instantiates every one
        of them, so a missing specialisation does not compile) and the table used by MFront to chain conversions
        (MFrontTable, mfront/src/FiniteStrainBehaviourTangentOperatorConversion.cxx; observed at run time).
        Obligation judged on the real code: along every path of the graph starting from the true operator of its
        first flag, the operator obtained is the true operator of the last flag - hence any two paths between the
        same flags agree (path independence) and conversions compose. *)
EXTENDS Derivatives

\* ---- the law and the stress measures ---------------------------------------------------------------------------------
\* law = [S0 |-> row-major symmetric matrix, Dp |-> natural matrix (sym -> sym) of X |-> Dp : X]
C2(F) == Sub(Mul(Transpose(F), F), Id3)                                     \* 2 E_GL
SOf(law, F)   == Add(OfRowMajor(law.S0), LApply(law.Dp, TRUE, C2(F)))
TauOf(law, F) == Mul(F, Mul(SOf(law, F), Transpose(F)))
PK1Of2(law, F) == Mul(F, SOf(law, F))
\* major symmetry of a natural matrix sym -> sym (the off-diagonal elementary directions are E_kl + E_lk)
Wd(d) == IF d <= 3 THEN 2 ELSE 1
MajorSym(L) == \A d \in 1..Len(L), c \in 1..Len(L) : Wd(d) * L[d][c] = Wd(c) * L[c][d]

\* ---- flags -------------------------------------------------------------------------------------------------------------
Flags == {"DSIG_DF", "DSIG_DDF", "C_TRUESDELL", "SPATIAL_MODULI", "C_TAU_JAUMANN", "ABAQUS", "DSIG_DDE", "DTAU_DF",
          "DTAU_DDF", "DS_DF", "DS_DDF", "DS_DC", "DS_DEGL", "DT_DELOG", "DPK1_DF"}
\* (argument symmetric?, result type) of the operator of a flag (getFiniteStrainBehaviourTangentOperatorFlagType)
T2toST2 == {"DSIG_DF", "DSIG_DDF", "DTAU_DF", "DTAU_DDF", "DS_DF", "DS_DDF"}
T2toT2  == {"DPK1_DF"}
FArgSym(f) == f \notin T2toST2 \cup T2toT2
FRes(f) == IF f \in T2toT2 THEN "full" ELSE "sym"
\* flags whose meaning is defined above (DT_DELOG belongs to the logarithmic strain handler, C24;
\* DSIG_DDE and DS_DDF have no conversion at all)
Core == Flags \ {"DSIG_DDE", "DS_DDF", "DT_DELOG"}
\* integer by which the true operator is multiplied to be integral
KF(f, F1) == IF f \in {"DSIG_DF", "DSIG_DDF"} THEN Det(F1) * Det(F1)
             ELSE IF f \in {"C_TRUESDELL", "ABAQUS"} THEN Det(F1) ELSE 1

\* ---- the truth of every flag: KF(f) . natural matrix of the operator ----------------------------------------------------------
Twice2(L) == [d \in 1..Len(L) |-> [q \in 1..Len(L[d]) |-> 2 * L[d][q]]]
SigNum(law, F, H) ==    \* J^2 dsigma[H] = J dtau[H] - tau dJ[H]
  Sub(Scale(Det(F), D1(4, LAMBDA Z : TauOf(law, Add(F, Z)), H)),
      Scale(D1(4, LAMBDA Z : Scal(Det(Add(F, Z))), H)[1][1], TauOf(law, F)))
Truth(f, law, n, F0, F1) ==
  CASE f = "DS_DEGL" -> Twice2(law.Dp)
    [] f = "DS_DC"   -> law.Dp
    [] f = "DS_DF"   -> NatMat(LAMBDA H : D1(2, LAMBDA Z : SOf(law, Add(F1, Z)), H), FALSE, "sym", n)
    [] f = "DTAU_DF" -> NatMat(LAMBDA H : D1(4, LAMBDA Z : TauOf(law, Add(F1, Z)), H), FALSE, "sym", n)
    [] f = "DTAU_DDF" -> NatMat(LAMBDA H : D1(4, LAMBDA Z : TauOf(law, Add(F1, Z)), Mul(H, F0)), FALSE, "sym", n)
    [] f = "DPK1_DF" -> NatMat(LAMBDA H : D1(4, LAMBDA Z : PK1Of2(law, Add(F1, Z)), H), FALSE, "full", n)
    [] f = "DSIG_DF" -> NatMat(LAMBDA H : SigNum(law, F1, H), FALSE, "sym", n)
    [] f = "DSIG_DDF" -> NatMat(LAMBDA H : SigNum(law, F1, Mul(H, F0)), FALSE, "sym", n)
    [] f \in {"SPATIAL_MODULI", "C_TRUESDELL"} ->
         NatMat(LAMBDA Dd : Mul(F1, Mul(D1(2, LAMBDA Z : SOf(law, Add(F1, Z)), Mul(Dd, F1)), Transpose(F1))), TRUE, "sym", n)
    [] f \in {"C_TAU_JAUMANN", "ABAQUS"} ->
         NatMat(LAMBDA Dd : D1(4, LAMBDA Z : TauOf(law, Add(F1, Z)), Mul(Dd, F1)), TRUE, "sym", n)

\* ---- stress measures: defining relations (k . observed value, k the scale of the case) ------------------------------------------------
\* P.F^T = J sigma ;  F.S.F^T = J sigma ;  U.S.U = J_U sigma_c  (corotational Cauchy stress, U the right stretch)
IsPK1(P, sig, F, k)     == Mul(P, Transpose(F)) = Scale(k * Det(F), sig)
IsPK2(S, sig, F, k)     == Mul(F, Mul(S, Transpose(F))) = Scale(k * Det(F), sig)

\* ---- the conversion graph ------------------------------------------------------------------------------------------------------
\* <<result, source>> : specialisations of FiniteStrainBehaviourTangentOperatorConverter<result, source>
Edges == {<<"DS_DC", "DS_DEGL">>, <<"DS_DEGL", "DS_DC">>, <<"SPATIAL_MODULI", "DS_DEGL">>, <<"DS_DEGL", "SPATIAL_MODULI">>,
          <<"DSIG_DF", "DS_DEGL">>, <<"DS_DF", "DS_DC">>, <<"DS_DF", "DS_DEGL">>, <<"ABAQUS", "SPATIAL_MODULI">>,
          <<"ABAQUS", "DS_DEGL">>, <<"DSIG_DF", "C_TRUESDELL">>, <<"SPATIAL_MODULI", "ABAQUS">>, <<"C_TRUESDELL", "SPATIAL_MODULI">>,
          <<"C_TRUESDELL", "DS_DEGL">>, <<"SPATIAL_MODULI", "C_TRUESDELL">>, <<"DSIG_DDF", "DSIG_DF">>, <<"DSIG_DF", "DSIG_DDF">>,
          <<"DTAU_DDF", "DTAU_DF">>, <<"DTAU_DF", "DTAU_DDF">>, <<"DSIG_DF", "DTAU_DF">>, <<"DTAU_DF", "DS_DF">>,
          <<"SPATIAL_MODULI", "DTAU_DF">>, <<"C_TAU_JAUMANN", "DTAU_DF">>, <<"C_TRUESDELL", "DTAU_DF">>, <<"ABAQUS", "C_TAU_JAUMANN">>,
          <<"C_TAU_JAUMANN", "ABAQUS">>, <<"C_TAU_JAUMANN", "SPATIAL_MODULI">>, <<"SPATIAL_MODULI", "C_TAU_JAUMANN">>,
          <<"ABAQUS", "DTAU_DF">>, <<"DTAU_DF", "C_TAU_JAUMANN">>, <<"DTAU_DF", "ABAQUS">>, <<"DTAU_DF", "SPATIAL_MODULI">>,
          <<"DS_DEGL", "DT_DELOG">>, <<"DS_DC", "DT_DELOG">>, <<"SPATIAL_MODULI", "DT_DELOG">>, <<"C_TRUESDELL", "DT_DELOG">>,
          <<"DSIG_DF", "ABAQUS">>, <<"DPK1_DF", "DSIG_DF">>, <<"DTAU_DF", "DPK1_DF">>, <<"DSIG_DF", "DPK1_DF">>, <<"DPK1_DF", "DS_DEGL">>}
CoreEdges == {e \in Edges : e[1] \in Core /\ e[2] \in Core}
\* <<source, target>> : the conversions MFront chains (getAvailableFiniteStrainBehaviourTangentOperatorConversions)
MFrontTable ==
  {<<"DS_DF", "DTAU_DF">>, <<"DTAU_DF", "C_TAU_JAUMANN">>, <<"DTAU_DF", "SPATIAL_MODULI">>, <<"DTAU_DF", "ABAQUS">>, <<"DTAU_DF", "DSIG_DF">>,
   <<"DTAU_DF", "DTAU_DDF">>, <<"DTAU_DDF", "DTAU_DF">>, <<"SPATIAL_MODULI", "DTAU_DF">>, <<"SPATIAL_MODULI", "C_TRUESDELL">>,
   <<"SPATIAL_MODULI", "ABAQUS">>, <<"SPATIAL_MODULI", "DS_DEGL">>, <<"DSIG_DF", "DSIG_DDF">>, <<"DSIG_DDF", "DSIG_DF">>,
   <<"DS_DEGL", "DS_DC">>, <<"DS_DEGL", "SPATIAL_MODULI">>, <<"DS_DEGL", "ABAQUS">>, <<"DS_DEGL", "DS_DF">>, <<"DS_DC", "DS_DF">>,
   <<"DS_DC", "DS_DEGL">>, <<"C_TRUESDELL", "SPATIAL_MODULI">>, <<"ABAQUS", "SPATIAL_MODULI">>, <<"ABAQUS", "C_TAU_JAUMANN">>,
   <<"ABAQUS", "DSIG_DF">>, <<"ABAQUS", "DTAU_DF">>, <<"C_TAU_JAUMANN", "ABAQUS">>, <<"C_TAU_JAUMANN", "DTAU_DF">>,
   <<"DT_DELOG", "DS_DC">>, <<"DT_DELOG", "SPATIAL_MODULI">>, <<"DT_DELOG", "C_TRUESDELL">>, <<"DSIG_DF", "DPK1_DF">>,
   <<"DS_DEGL", "DPK1_DF">>, <<"DPK1_DF", "DTAU_DF">>, <<"DPK1_DF", "DSIG_DF">>}
\* paths (sequences of flags, source first) of at most maxlen edges in a set E of <<result, source>> edges
Step(E, P) == {Append(pe[1], pe[2][1]) : pe \in {pe \in P \X E : pe[2][2] = pe[1][Len(pe[1])]}}
RECURSIVE PathsUpTo(_, _, _)
PathsUpTo(E, P, k) == IF k = 0 THEN P ELSE P \cup PathsUpTo(E, Step(E, P), k - 1)
Paths(E, maxlen) == PathsUpTo(E, {<<e[2], e[1]>> : e \in E}, maxlen - 1)
\* reachability (reflexive transitive closure) in a set of <<source, target>> pairs
RECURSIVE ReachFrom(_, _)
ReachFrom(T, S) == LET S2 == S \cup {t[2] : t \in {t \in T : t[1] \in S}} IN IF S2 = S THEN S ELSE ReachFrom(T, S2)
\* ---- theorems on the graph, checked by TLC ----------------------------------------------------------------------------------------
GraphTheorems ==
  \* MFront only chains conversions that exist
  /\ \A t \in MFrontTable : <<t[2], t[1]>> \in Edges
  \* every flag with a defined meaning can be converted to every other one by MFront, DT_DELOG to all of them,
  \* and nothing leads to the flags that have no conversion
  /\ \A a \in Core : ReachFrom(MFrontTable, {a}) = Core
  /\ ReachFrom(MFrontTable, {"DT_DELOG"}) = Core \cup {"DT_DELOG"}
  /\ \A e \in Edges : e[1] \in Core /\ e[2] \in Core \cup {"DT_DELOG"}
  /\ Cardinality(Edges) = 40 /\ Cardinality(MFrontTable) = 33
=============================================================================

-------------------------- MODULE FiniteStrainJudge --------------------------
(* JUDGE for C23: every observation of harness/finitestrain.cxx against the meaning of the flags (FiniteStrain.tla).
   tangent: res[i] = KF(last flag) . operator obtained by following paths[i] from the true operator of its first flag;
            it must be the true operator of its last flag.  A failing one-edge path names the conversion
            ("edge:SOURCE>RESULT"); a longer failing path none of whose edges fails alone in this case is a
            composition failure ("compose:..."); the paths followed must be those of the specification.
   stress : defining relations of the stress measures and round trips. *)
EXTENDS FiniteStrain, Judge
CoreList == <<"DSIG_DF", "DSIG_DDF", "C_TRUESDELL", "SPATIAL_MODULI", "C_TAU_JAUMANN", "ABAQUS", "DTAU_DF", "DTAU_DDF", "DS_DF", "DS_DC", "DS_DEGL", "DPK1_DF">>
Idx(f) == CHOOSE i \in 1..12 : CoreList[i] = f
RECURSIVE Name(_, _)
Name(p, i) == IF i = 1 THEN p[1] ELSE Name(p, i - 1) \o ">" \o p[i]
\* the paths of the quick (at most 3 conversions) or of the thorough (at most 4) tier
ExpectedPaths3 == Paths(CoreEdges, 3)
ExpectedPaths4 == Paths(CoreEdges, 4)
FailsTangent(o) ==
  LET law == [S0 |-> o.S0, Dp |-> o.Dp]
      F0 == OfRowMajor(o.F0)
      F1 == OfRowMajor(o.F1)
      T(f) == Truth(f, law, o.n, F0, F1)
      TT == <<T(CoreList[1]), T(CoreList[2]), T(CoreList[3]), T(CoreList[4]), T(CoreList[5]), T(CoreList[6]),
              T(CoreList[7]), T(CoreList[8]), T(CoreList[9]), T(CoreList[10]), T(CoreList[11]), T(CoreList[12])>>
      np == Len(o.paths)
      Bad == {i \in 1..np : o.res[i] # TT[Idx(o.paths[i][Len(o.paths[i])])]}
      BadEdges == {o.paths[i] : i \in {i \in Bad : Len(o.paths[i]) = 2}}
      HasBadEdge(p) == \E q \in 1..(Len(p) - 1) : <<p[q], p[q + 1]>> \in BadEdges
  IN  IF Len(o.res) # np THEN {"shape"}
      ELSE {"edge:" \o Name(p, 2) : p \in BadEdges}
           \cup {"compose:" \o Name(o.paths[i], Len(o.paths[i])) : i \in {i \in Bad : Len(o.paths[i]) > 2 /\ ~HasBadEdge(o.paths[i])}}
           \cup (IF np = Cardinality(ExpectedPaths3) /\ {o.paths[i] : i \in 1..np} = ExpectedPaths3 THEN {}
                 ELSE IF np = Cardinality(ExpectedPaths4) /\ {o.paths[i] : i \in 1..np} = ExpectedPaths4 THEN {} ELSE {"paths-not-those-of-the-specification"})
           \cup (IF o.J = Det(F1) THEN {} ELSE {"scale"})
           \cup (IF o.logpaths = <<1, 1, 1, 1>> THEN {} ELSE {"DT_DELOG:direct-and-chained-conversions-differ"})
Eq(name, ok) == IF ok THEN {} ELSE {name}
FailsStress(o) ==
  LET F == OfRowMajor(o.F1) U == OfRowMajor(o.U) s == OfRowMajor(o.s) J == Det(F) JU == Det(U)
      M(x) == OfRowMajor(x)
      FsFt == Mul(F, Mul(s, Transpose(F)))
  IN  Eq("scale", o.J = J /\ o.JU = JU)
      \cup Eq("Cauchy>PK1", Mul(M(o.pk1), Transpose(F)) = Scale(J, s))                              \* P.F^T = J sigma
      \cup Eq("Cauchy>PK1>Cauchy", M(o.pk1_back) = s)
      \cup Eq("Cauchy>PK2", Mul(F, Mul(M(o.pk2), Transpose(F))) = Scale(J * J, s) /\ IsSym(M(o.pk2)))  \* F.S.F^T = J sigma (pk2 = J S)
      \cup Eq("Cauchy>PK2>Cauchy", M(o.pk2_back) = s)
      \cup Eq("PK2>Cauchy", M(o.sig_of_pk2) = FsFt)                                                     \* J sigma = F.S.F^T
      \cup Eq("PK2>Cauchy>PK2", M(o.sig_of_pk2_back) = s)
      \cup Eq("PK1>Cauchy", M(o.sig_of_pk1) = FsFt)                                                     \* J sigma = P.F^T, P = F.S
      \cup Eq("Corotational>PK2", Mul(U, Mul(M(o.pk2_of_corot), U)) = Scale(JU * JU, s))               \* U.S.U = J sigma_c
      \cup Eq("Corotational>PK2>Corotational", M(o.pk2_of_corot_back) = s)
      \cup Eq("PK2>Corotational", M(o.corot_of_pk2) = Mul(U, Mul(s, U)))
      \cup Eq("PK2>Corotational>PK2", M(o.corot_of_pk2_back) = s)
Fails(o) == (IF o.kind = "tangent" THEN FailsTangent(o) ELSE FailsStress(o))
            \cup {"inexact:" \o o.loose[i] : i \in 1..Len(o.loose)}
ASSUME JudgeAll(Fails)
=============================================================================

---------------------------- MODULE HypothesesGen ----------------------------
(* C28 - GEN: every hypothesis, every unknown string of the model, every documented combination of hypothesis and
   axes convention, on a small lattice of integer materials. *)
EXTENDS Hypotheses, TLC, Json, IOUtils, SequencesExt
Thorough == IOEnv.TIER = "thorough"
Tables == {[kind |-> "table", h |-> h, name |-> Name(h)] : h \in HypSet}
          \cup {[kind |-> "undefined"], [kind |-> "list"]}
          \cup {[kind |-> "unknown", s |-> s] : s \in Unknowns}
Combos == {hc \in HypSet \X Conventions : ValidCombination(hc[1], hc[2])}
\* stress free expansions: three distinct values in every order, a repeated value, negative values, zero
Perm3(a, b, c) == {<<a, b, c>>, <<a, c, b>>, <<b, a, c>>, <<b, c, a>>, <<c, a, b>>, <<c, b, a>>}
Expansions == Perm3(1, 2, 3) \cup Perm3(-5, 0, 7) \cup {<<4, 4, 9>>, <<4, 9, 4>>, <<0, 0, 0>>}
              \cup (IF Thorough THEN Perm3(-1, -2, 1000) \cup Perm3(11, 12, 12) ELSE {})
Sfe == {[kind |-> "sfe", h |-> hc[1], c |-> hc[2], v |-> v] : hc \in Combos, v \in Expansions}
\* Hill coefficients: six distinct values (every swap is visible), in two arrangements, and one with zeros
HillCo == {<<2, 3, 5, 7, 11, 13>>, <<13, 11, 7, 5, 3, 2>>, <<1, 0, 4, 0, 6, 9>>}
          \cup (IF Thorough THEN {<<a, b, c, l, m, n>> : a \in {1, 2}, b \in {3, 5}, c \in {7, 8}, l \in {10, 20}, m \in {30}, n \in {40, 50}} ELSE {})
HillC == {[kind |-> "hill", h |-> hc[1], c |-> hc[2], co |-> co] : hc \in Combos, co \in HillCo}
\* integer SPD blocks with six distinct entries (no symmetry that could hide a swap of axes)
Diags == IF Thorough THEN {<<10, 12, 15>>, <<9, 7, 8>>, <<20, 31, 17>>} ELSE {<<10, 12, 15>>, <<9, 7, 8>>}
Offs == Perm3(-2, 1, 3) \cup (IF Thorough THEN Perm3(2, 4, 5) ELSE {<<2, 4, 5>>})
Blocks == {<<<<d[1], o[1], o[2]>>, <<o[1], d[2], o[3]>>, <<o[2], o[3], d[3]>>>> : d \in Diags, o \in Offs}
Shears == IF Thorough THEN {<<1, 2, 3>>, <<6, 4, 5>>, <<3, 3, 8>>} ELSE {<<1, 2, 3>>, <<6, 4, 5>>}
StiffOf(h, c, alt, A, G) == [kind |-> "stiff", h |-> h, c |-> c, alt |-> alt, C3 |-> A, G |-> G,
                             E |-> Young(A), nu |-> Poisson(A), k |-> ScaleOf(h, c, alt, A, G)]
\* ALTERED is requested for every hypothesis (it must change nothing outside plane stress) except the 1D generalised plane
\* stress one, whose condensation belongs to C21
Stiff == {x \in {StiffOf(hc[1], hc[2], alt, A, G) : hc \in Combos, alt \in 0..1, A \in Blocks, G \in Shears} : ~(x.alt = 1 /\ x.h = AGPS)}
Cases == Tables \cup Sfe \cup HillC \cup Stiff
Number(S) == LET s == SetToSeq(S) IN [i \in 1..Len(s) |-> [id |-> i] @@ s[i]]
ASSUME Theorems
ASSUME \A A \in Blocks : SPD(A) /\ \A i \in 1..3 : Cof(A, i, i) > 0
\* the generator really contains the kinds the judge relies on
ASSUME Cardinality(Unknowns) >= 60 /\ Unknowns \cap Names = {}
ASSUME \E x \in Stiff : x.alt = 1 /\ x.h = PS /\ x.c = "PIPE" /\ x.k > 1
ASSUME \A hc \in Combos : \E x \in Stiff : x.h = hc[1] /\ x.c = hc[2]
ASSUME Cardinality(Combos) = 18
ASSUME ndJsonSerialize(IOEnv.OUT, Number(Cases))
ASSUME PrintT(<<"GEN", Cardinality(Tables), Cardinality(Sfe), Cardinality(HillC), Cardinality(Stiff)>>)
=============================================================================

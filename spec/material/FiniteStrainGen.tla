--------------------------- MODULE FiniteStrainGen ---------------------------
(* GEN for C23: cases = (dimension, hyperelastic law, F0, F1) with, for every flag, the exact operator computed from the
   meaning of the flag, and the list of paths of the conversion graph to follow; plus cases for the stress conversions.
   TIER = "quick" | "thorough" (environment). *)
EXTENDS FiniteStrain, TLC, Json, IOUtils, SequencesExt
Thorough == IOEnv.TIER = "thorough"
\* paths of at most 3 conversions; thorough: at most 4 for the anisotropic law with F0 = Id
MaxLen == 3
Sh(i, j, v) == Add(Id3, Scale(v, El(i, j)))                 \* elementary shear
RotZ == <<<<0, -1, 0>>, <<1, 0, 0>>, <<0, 0, 1>>>>           \* rotation of 90 degrees about e3
RotX == <<<<1, 0, 0>>, <<0, 0, -1>>, <<0, 1, 0>>>>
Rot3 == <<<<0, 0, 1>>, <<1, 0, 0>>, <<0, 1, 0>>>>            \* rotation of 120 degrees about (1,1,1)
\* deformation gradients (det > 0): identity, shears, their products, large rotations times stretches, J = 1, 2, 3, 6
F1s(n) == IF n = 1 THEN {Id3, Diag(2, 1, 1), Diag(1, 2, 3), Diag(3, 1, 2)} \cup (IF Thorough THEN {Diag(1, 1, 2), Diag(2, 2, 1)} ELSE {})
          ELSE IF n = 2 THEN {Id3, Sh(1, 2, 1), Mul(Sh(2, 1, -1), Sh(1, 2, 2)), Mul(RotZ, Mul(Diag(2, 1, 1), Sh(1, 2, 1))),
                              <<<<1, 1, 0>>, <<-1, 2, 0>>, <<0, 0, 1>>>>, Mul(Diag(1, 1, 2), RotZ)}
                             \cup (IF Thorough THEN {Sh(2, 1, 2), Mul(RotZ, RotZ), <<<<2, -1, 0>>, <<1, 1, 0>>, <<0, 0, 2>>>>} ELSE {})
          ELSE {Id3, Sh(1, 3, 2), Mul(Sh(2, 1, -1), Mul(Sh(1, 3, 2), Sh(3, 2, 1))), Mul(Rot3, Mul(Diag(2, 1, 1), Sh(2, 3, 1))),
                <<<<1, 1, 0>>, <<0, 1, 1>>, <<1, 0, 2>>>>, Mul(RotX, Sh(1, 2, -1))}
               \cup (IF Thorough THEN {Mul(RotZ, RotX), <<<<1, -1, 1>>, <<1, 2, 0>>, <<0, 1, 1>>>>, Mul(Sh(3, 1, 1), Diag(1, 2, 1))} ELSE {})
F0s(n) == IF n = 1 THEN {Id3, Diag(2, 1, 1), Diag(1, 1, 2)}
          ELSE IF n = 2 THEN {Id3, Sh(2, 1, 1), Mul(Diag(2, 1, 1), Sh(1, 2, -1))}
          ELSE {Id3, Mul(Sh(1, 2, 1), Sh(3, 1, -1)), Mul(Diag(1, 2, 1), Sh(2, 3, 1))}
\* hyperelastic laws S = S0 + Dp : (C - I)
G(n) == SymOf(Embed(n, <<-3, -1, 2, 3, -3, -1>>))
A(n) == SymOf(Embed(n, <<-3, -2, 2, 3, -1, -1>>))
Laws(n) == {[S0 |-> RowMajor(Zero3), Dp |-> NatMat(LAMBDA X : Add(Scale(Trace(X), Id3), X), TRUE, "sym", n)],          \* Saint Venant-Kirchhoff, lambda = 2, mu = 1
            [S0 |-> RowMajor(A(n)), Dp |-> NatMat(LAMBDA X : Add(Mul(G(n), Mul(X, G(n))), Scale(Contract(A(n), X), A(n))), TRUE, "sym", n)],   \* anisotropic, residual stress
            [S0 |-> RowMajor(G(n)), Dp |-> NatMat(LAMBDA X : Scale(2, X), TRUE, "sym", n)]}
CoreSeq == SetToSeq(Core)
PathSeq == SetToSeq(Paths(CoreEdges, MaxLen))
PathSeq4 == SetToSeq(Paths(CoreEdges, 4))
FFs(n) == IF Thorough THEN F0s(n) \X F1s(n)
          ELSE {<<Id3, f1>> : f1 \in F1s(n)} \cup {<<f0, CHOOSE f \in F1s(n) : Det(f) > 1>> : f0 \in F0s(n)}
\* quick: the anisotropic law with residual stress (the most discriminating) with every (F0, F1), the two others with a shear and a det > 1
LawSeq(n) == SetToSeq(Laws(n))
Aniso(n) == CHOOSE l \in Laws(n) : OfRowMajor(l.S0) = A(n)
Few(n) == {<<Id3, CHOOSE f \in F1s(n) : Det(f) > 1>>, <<Id3, CHOOSE f \in F1s(n) : f # Id3 /\ (n = 1 \/ Det(f) = 1)>>}
LFs(n) == IF Thorough THEN Laws(n) \X FFs(n)
          ELSE ({Aniso(n)} \X FFs(n)) \cup ((Laws(n) \ {Aniso(n)}) \X Few(n))
TangentN(n) ==
  {[kind |-> "tangent", n |-> n, S0 |-> lf[1].S0, Dp |-> lf[1].Dp, F0 |-> RowMajor(lf[2][1]), F1 |-> RowMajor(lf[2][2]), J |-> Det(lf[2][2]),
    tau |-> RowMajor(TauOf(lf[1], lf[2][2])),
    ops |-> [i \in 1..Len(CoreSeq) |-> [f |-> CoreSeq[i], k |-> KF(CoreSeq[i], lf[2][2]), m |-> Truth(CoreSeq[i], lf[1], n, lf[2][1], lf[2][2])]],
    paths |-> IF Thorough /\ lf[1] = Aniso(n) /\ lf[2][1] = Id3 THEN PathSeq4 ELSE PathSeq]
   : lf \in LFs(n)}
Tangent == TangentN(1) \cup TangentN(2) \cup TangentN(3)
\* stress conversions: integer stresses, deformation gradients and stretches
Us(n) == IF n = 1 THEN {Diag(1, 2, 3), Diag(2, 1, 1)} ELSE IF n = 2 THEN {SymOf(<<2, 2, 1, 1, 0, 0>>), SymOf(<<1, 3, 2, -1, 0, 0>>)}
         ELSE {SymOf(<<2, 2, 2, 1, 0, 1>>), SymOf(<<3, 2, 2, 1, -1, 0>>)}
Sig(n) == {G(n), A(n)} \cup {SymOf([<<0, 0, 0, 0, 0, 0>> EXCEPT ![p] = 1]) : p \in 1..NSym(n)}
StressesN(n) ==
  {[kind |-> "stress", n |-> n, F1 |-> RowMajor(c[1]), U |-> RowMajor(c[2]), s |-> RowMajor(c[3]), J |-> Det(c[1]), JU |-> Det(c[2])]
   : c \in F1s(n) \X Us(n) \X Sig(n)}
Stresses == StressesN(1) \cup StressesN(2) \cup StressesN(3)
Number(S) == LET s == SetToSeq(S) IN [i \in 1..Len(s) |-> [id |-> i] @@ s[i]]
ASSUME OracleTheorems
ASSUME GraphTheorems
\* the laws are hyperelastic (major symmetry), deformation gradients have det > 0, stretches are positive definite enough (det > 0)
ASSUME \A n \in 1..3 : /\ \A law \in Laws(n) : MajorSym(law.Dp) /\ IsSym(OfRowMajor(law.S0))
                       /\ \A f \in F1s(n) \cup F0s(n) : Det(f) > 0 /\ HasShape(n, f)
                       /\ \E f \in F1s(n) : Det(f) > 1
                       /\ \A u \in Us(n) : Det(u) > 0 /\ IsSym(u) /\ HasShape(n, u)
\* every edge is exercised alone, every ordered pair of distinct flags is joined by some path followed
ASSUME \A e \in CoreEdges : <<e[2], e[1]>> \in Paths(CoreEdges, MaxLen)
\* the anisotropic law is generic: every component of its moduli is non-zero, no two components of a row are equal in magnitude
ASSUME \A n \in 1..3 : LET L == Aniso(n).Dp IN
          /\ \A d \in 1..NSym(n), c \in 1..NSym(n) : L[d][c] # 0
          /\ \A d \in 1..NSym(n), c1 \in 1..NSym(n), c2 \in 1..NSym(n) : c1 # c2 => L[d][c1] # L[d][c2]
ASSUME ndJsonSerialize(IOEnv.OUT, Number(Tangent) \o [i \in 1..Cardinality(Stresses) |-> [Number(Stresses)[i] EXCEPT !.id = @ + Cardinality(Tangent)]])
ASSUME PrintT(<<"GEN", Cardinality(Tangent), Len(PathSeq), Cardinality(Stresses)>>)
=============================================================================

----------------------------- MODULE SlipSystemsGen -----------------------------
EXTENDS SlipSystems, SlipSystemsHCP, TLC, Json, IOUtils, SequencesExt
Thorough == IOEnv.TIER = "thorough"
R == IF Thorough THEN -3..3 ELSE -2..2
Vecs == {v \in {<<a, b, c>> : a \in R, b \in R, c \in R} : v # <<0, 0, 0>>}
\* one representative per family: b sign-normalised with non-increasing absolute values is enough to bound the count
Fams == {<<b, n>> \in Vecs \X Vecs : Dot(b, n) = 0 /\ Canon(b) = b /\ Canon(n) = n /\ AbsV(b[1]) >= AbsV(b[2]) /\ AbsV(b[2]) >= AbsV(b[3])}
\* HCP: Miller-Bravais indices (in-plane indices summing to zero), one representative per sign class
R4 == IF Thorough THEN -3..3 ELSE -2..2
Vecs4 == {v \in {<<a, b, -(a + b), c>> : a \in R4, b \in R4, c \in R4} : Valid4(v) /\ v[3] \in R4}
Fams4 == {<<b, n>> \in Vecs4 \X Vecs4 : Dot4(b, n) = 0 /\ Canon4(b) = b /\ Canon4(n) = n /\ Gcd4(b) = 1 /\ Gcd4(n) = 1}
Cases == {[structure |-> s, b |-> f[1], n |-> f[2]] : s \in {"Cubic", "BCC", "FCC"}, f \in Fams}
         \cup {[structure |-> "HCP", b |-> f[1], n |-> f[2]] : f \in Fams4}
Number(S) == LET s == SetToSeq(S) IN [i \in 1..Len(s) |-> [id |-> i] @@ s[i]]
ASSUME Theorems /\ TheoremsHCP
ASSUME ndJsonSerialize(IOEnv.OUT, Number(Cases))
ASSUME PrintT(<<"GEN", Cardinality(Cases)>>)
=============================================================================

----------------------------- MODULE SlipSystemsGen -----------------------------
EXTENDS SlipSystems, TLC, Json, IOUtils, SequencesExt
Thorough == IOEnv.TIER = "thorough"
R == IF Thorough THEN -3..3 ELSE -2..2
Vecs == {v \in {<<a, b, c>> : a \in R, b \in R, c \in R} : v # <<0, 0, 0>>}
\* one representative per family: b sign-normalised with non-increasing absolute values is enough to bound the count
Fams == {<<b, n>> \in Vecs \X Vecs : Dot(b, n) = 0 /\ Canon(b) = b /\ Canon(n) = n /\ AbsV(b[1]) >= AbsV(b[2]) /\ AbsV(b[2]) >= AbsV(b[3])}
Cases == {[structure |-> s, b |-> f[1], n |-> f[2]] : s \in {"Cubic", "BCC", "FCC"}, f \in Fams}
Number(S) == LET s == SetToSeq(S) IN [i \in 1..Len(s) |-> [id |-> i] @@ s[i]]
ASSUME Theorems
ASSUME ndJsonSerialize(IOEnv.OUT, Number(Cases))
ASSUME PrintT(<<"GEN", Cardinality(Cases)>>)
=============================================================================

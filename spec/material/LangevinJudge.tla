----------------------------- MODULE LangevinJudge -----------------------------
EXTENDS Langevin, Judge
Check(name, b) == IF b THEN {} ELSE {name}
Side(y) == IF y[1] < 0 THEN ":negative" ELSE ""
Field(o, f) == IF f = "rbits" THEN o.rbits ELSE IF f = "relbits" THEN o.relbits ELSE o.polebits
Fails(o) ==
  IF o.kind = "ranks"
  THEN \* increasing: the ranks of f over the sorted lattice are 0, 1, 2, ...
       Check("increasing:" \o o.a, Len(o.ranks) = Len(o.ys) /\ \A i \in 1..Len(o.ranks) : o.ranks[i] = i - 1)
  ELSE Check("finite:" \o o.a, o.finite)
       \cup Check("sign:" \o o.a, o.sgn = Sign(o.y))
       \cup Check("odd:" \o o.a, o.odd)
       \cup Check("derivative-variant-value:" \o o.a, o.vsame)
       \cup Check("derivative:" \o o.a \o Side(o.y), o.fd = 0 \/ o.dok)
       \cup Check("increasing-derivative:" \o o.a, o.dpos)
       \cup Check("alias:" \o o.a, o.a # "KUHN_GRUN_1942" \/ o.alias)
       \cup UNION {Check("accuracy-" \o ob[1] \o ":" \o o.a \o Side(o.y), Field(o, ob[2]) >= ob[3]) : ob \in Accuracy(o.a, o.y)}
ASSUME JudgeAll(Fails)
=============================================================================

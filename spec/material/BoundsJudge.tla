------------------------------ MODULE BoundsJudge ------------------------------
EXTENDS Bounds, Judge
Check(name, b) == IF b THEN {} ELSE {name}
Fails(o) == Check("throws:" \o o.kind \o ":" \o o.policy, (o.threw = 1) = Throws(o.kind, o.policy, o.vs))
            \cup Check("warns:" \o o.kind \o ":" \o o.policy,
                       IF o.threw = 1 THEN TRUE ELSE o.warned = Warnings(o.kind, o.policy, o.vs))
            \cup Check("silent-when-strict-or-none", o.policy = "Warning" \/ o.warned = 0)
ASSUME JudgeAll(Fails)
=============================================================================

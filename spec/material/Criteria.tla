-------------------------------- MODULE Criteria --------------------------------
(* C22 - equivalent-stress criteria return consistent values and derivatives.

   A stress is the tuple of its six integer matrix components <<s11, s22, s33, s12, s13, s23>> (1D uses the
   first three, 2D the first four).  The replayed stress is 2^k (s + eps 2^-t): the binary scale k and the
   dyadic perturbation are exact in floating point.

   What the specification holds:
   (1) exact polynomial relations between a criterion and the stress invariants on special parameters,
       written with integers only (Expect): Hosford(2) = Hosford(4) = von Mises, Hosford(6) in closed form,
       Hosford(1) = Tresca and Hosford(8) by direct sum on diagonal stresses, Barlat with unit coefficients =
       Hosford, Hill = its quadratic form, Drucker and Cazacu 2001 (isotropic coefficients):
       seq^6 = 27 (J2^3 - c J3^2), Cazacu 2004 with c = 0: seq^2 = J2, Mohr-Coulomb with zero friction inside
       the unsmoothed zone: F = Tresca / 2 - c, porous criteria at zero porosity = von Mises and, on
       trace-free stresses, their closed forms;
   (2) the structural obligations of a degree-one homogeneous convex potential and which criterion owes them:
       the three variants agree, n : s = seq (Euler), dn : s = 0, dn symmetric, seq(2^h s) = 2^h seq(s),
       invariance under the symmetry group of the criterion (axis permutations for isotropic criteria,
       reflections for orthotropic ones), the normal is the gradient of the value and the second derivative
       the gradient of the normal (judged on error classes measured against fourth-order finite differences);
   (3) the singular points and what the code documents to return there;
   (4) the admissible error class of each obligation (Tol), fixed a priori and justified below. *)
EXTENDS Integers, Sequences, FiniteSets

Sq(x) == x * x
Cube(x) == x * x * x
AbsV(x) == IF x < 0 THEN -x ELSE x
RECURSIVE Pow(_, _)
Pow(x, n) == IF n = 0 THEN 1 ELSE x * Pow(x, n - 1)
Max3(a, b, c) == IF a >= b /\ a >= c THEN a ELSE IF b >= c THEN b ELSE c
Min3(a, b, c) == IF a <= b /\ a <= c THEN a ELSE IF b <= c THEN b ELSE c

---------------------------------------------------------------------------------
(* Invariants.  M2 = 2 seq_vM^2 = 6 J2,  D3 = det(3 dev s) = 27 J3 *)
M2(s) == Sq(s[1] - s[2]) + Sq(s[2] - s[3]) + Sq(s[3] - s[1]) + 6 * (Sq(s[4]) + Sq(s[5]) + Sq(s[6]))
Tr(s) == s[1] + s[2] + s[3]
D3(s) == LET a == 3 * s[1] - Tr(s)  b == 3 * s[2] - Tr(s)  c == 3 * s[3] - Tr(s)
             d == 3 * s[4]  e == 3 * s[5]  f == 3 * s[6]
         IN  a * (b * c - f * f) - d * (d * c - f * e) + e * (d * f - b * e)
IsDiag(s) == s[4] = 0 /\ s[5] = 0 /\ s[6] = 0
Tresca(s) == Max3(s[1], s[2], s[3]) - Min3(s[1], s[2], s[3])           \* diagonal stresses only
SumDiffPow(s, a) == Pow(AbsV(s[1] - s[2]), a) + Pow(AbsV(s[1] - s[3]), a) + Pow(AbsV(s[2] - s[3]), a)
\* discriminant of the characteristic polynomial of the deviator, up to a positive factor:
\* two principal stresses coincide iff it vanishes; it is never negative for a symmetric tensor
Disc(s) == Cube(M2(s)) - 2 * Sq(D3(s))
Coincident(s) == Disc(s) = 0
Hydrostatic(s) == M2(s) = 0

---------------------------------------------------------------------------------
(* Criteria and their parameters.  par is a tuple of integers, the parameter i is par[i] / pd.
     mises        -
     hill         F G H L M N
     hosford      a
     barlat       a, c'12 c'21 c'13 c'31 c'23 c'32 c'44 c'55 c'66, same for c''
     drucker      c
     cazacu2001 / cazacu2004ortho    c, a1..a6, b1..b11
     cazacu2004iso  c
     mohrcoulomb  cohesion, friction angle (degrees), transition angle (degrees), tension cut-off
     gtn          fc fr q1 q2 q3       porosity fn / fd
     rtb          DR qR                porosity fn / fd
     ms           n                    porosity fn / fd *)
Porous == {"gtn", "rtb", "ms"}
ValueOnly == {"mises", "hill"}              \* no normal / second derivative function in TFEL/Material
PressureInsensitive == {"mises", "hill", "hosford", "barlat", "drucker", "cazacu2001", "cazacu2004iso", "cazacu2004ortho"}
Homogeneous(c) == c.crit # "mohrcoulomb" \/ (c.par[1] = 0 /\ c.par[4] = 0)
AllEq(par, from, to, v) == \A i \in from..to : par[i] = v
\* orthotropic criteria fed with the coefficients that make them isotropic
IsoCoefficients(c) ==
  CASE c.crit = "barlat" -> AllEq(c.par, 2, 19, c.pd)
    [] c.crit \in {"cazacu2001", "cazacu2004ortho"} -> AllEq(c.par, 2, 18, c.pd)
    [] c.crit = "hill" -> c.par[1] = c.par[2] /\ c.par[2] = c.par[3] /\ c.par[4] = c.par[5] /\ c.par[5] = c.par[6]
                          /\ c.par[4] = 3 * c.par[1]
    [] OTHER -> TRUE
Isotropic(c) == IsoCoefficients(c)
\* exponent of the eigenvalue-based criteria as an integer when it is one (0 otherwise)
IntExponent(c) == IF c.crit \in {"hosford", "barlat"} /\ c.par[1] % c.pd = 0 THEN c.par[1] \div c.pd ELSE 0
EvenExponent(c) == IntExponent(c) > 0 /\ IntExponent(c) % 2 = 0
Unperturbed(c) == \A i \in 1..6 : c.eps[i] = 0

---------------------------------------------------------------------------------
(* (1) Exact relations: Expect(c) = <<pw, mul, value>> meaning  mul * (seq / 2^k)^pw = value  (pw = 0: none).
   All are textbook identities; the non-obvious ones are proved on the lattice by Theorems below. *)
None == <<0, 0, 0>>
Mises(s) == <<2, 2, M2(s)>>
\* a = 1 (Tresca) is only Lipschitz at coincident principal stresses: the exact comparison is restricted to the
\* cases where the eigenvalues are exact (1D) or distinct
HosfordLike(a, n, s) ==
  CASE a = 2 \/ a = 4 -> <<2, 2, M2(s)>>
    [] a = 6 -> <<6, 72, 11 * Cube(M2(s)) - 4 * Sq(D3(s))>>
    [] a = 1 /\ IsDiag(s) /\ (n = 1 \/ ~Coincident(s)) -> <<1, 1, Tresca(s)>>
    [] a = 8 /\ IsDiag(s) -> <<8, 2, SumDiffPow(s, 8)>>
    [] OTHER -> None
DruckerLike(cn, cd, s) == <<6, 216 * cd, 27 * cd * Cube(M2(s)) - 8 * cn * Sq(D3(s))>>
HillForm(p, s) == p[1] * Sq(s[1] - s[2]) + p[2] * Sq(s[2] - s[3]) + p[3] * Sq(s[3] - s[1])
                  + 2 * p[4] * Sq(s[4]) + 2 * p[5] * Sq(s[5]) + 2 * p[6] * Sq(s[6])
\* sin^2(3 lode) = 2 D3^2 / M2^3; inside the unsmoothed Mohr-Coulomb zone when |lode| < lodeT: with lodeT >= 25 degrees
\* sin^2(75 degrees) > 0.93, so 100 * 2 D3^2 <= 90 M2^3 is strictly inside
InsideLodeZone(s) == 200 * Sq(D3(s)) <= 90 * Cube(M2(s))
Expect(c) ==
  LET s == c.s IN
  IF ~Unperturbed(c) THEN None ELSE
  CASE c.crit = "mises" -> Mises(s)
    [] c.crit = "hill" -> <<2, c.pd, HillForm(c.par, s)>>
    [] c.crit = "hosford" -> HosfordLike(IntExponent(c), c.n, s)
    [] c.crit = "barlat" -> IF IsoCoefficients(c) THEN HosfordLike(IntExponent(c), c.n, s) ELSE None
    [] c.crit = "drucker" -> DruckerLike(c.par[1], c.pd, s)
    [] c.crit = "cazacu2001" -> IF IsoCoefficients(c) THEN DruckerLike(c.par[1], c.pd, s) ELSE None
    [] c.crit \in {"cazacu2004iso", "cazacu2004ortho"} ->
          IF c.par[1] = 0 /\ IsoCoefficients(c) THEN <<2, 6, M2(s)>> ELSE None
    [] c.crit = "mohrcoulomb" ->
          IF c.par[2] = 0 /\ c.par[3] >= 25 * c.pd /\ IsDiag(s) /\ M2(s) > 0 /\ InsideLodeZone(s)
          THEN <<1, 2 * c.pd, c.pd * Tresca(s) - 2 * c.par[1]>> ELSE None
    [] c.crit = "gtn" ->
          IF c.fn = 0 THEN Mises(s)
          ELSE IF Tr(s) = 0 /\ c.par[5] * c.pd = Sq(c.par[3]) /\ c.fn * c.pd < c.par[1] * c.fd
               THEN <<2, 2 * Sq(c.pd * c.fd - c.par[3] * c.fn), Sq(c.pd * c.fd) * M2(s)>>      \* seq = svm / (1 - q1 f)
               ELSE None
    [] c.crit = "rtb" ->
          IF c.fn = 0 THEN Mises(s)
          ELSE IF Tr(s) = 0
               THEN <<2, 2 * Sq((c.fd - c.fn) * (3 * c.fd * c.pd - 2 * c.fn * c.par[1])), Sq(3 * c.fd * c.fd * c.pd) * M2(s)>>
               ELSE None                                                                     \* seq = svm / ((1-f)(1 - 2 f DR / 3))
    [] c.crit = "ms" -> IF c.fn = 0 THEN Mises(s) ELSE None
    [] OTHER -> None

(* Tresca sandwich of the Hosford stress for any exponent a >= 1 on diagonal stresses:
   2^(-1/a) T <= H <= T and 2^(-1/a) >= 1 - 1/a (Bernoulli), judged on q = round(1024 H / 2^k). *)
SandwichApplies(c) == c.crit \in {"hosford", "barlat"} /\ IsoCoefficients(c) /\ IntExponent(c) >= 1 /\ IsDiag(c.s) /\ Unperturbed(c)
SandwichOk(c, q) == LET a == IntExponent(c) T == Tresca(c.s) IN
                    /\ q <= 1024 * T + 1
                    /\ a * (q + 1) >= 1024 * T * (a - 1)

---------------------------------------------------------------------------------
(* (2) symmetry group acting on the components: a transformation is [m |-> source component, g |-> sign] with
   s'[a] = g[a] s[m[a]].  Axis permutation p: s'_{p(i) p(j)} = s_ij; reflection of axis r: s_ij changes sign when
   exactly one of i, j is r. *)
PairOf == <<<<1, 1>>, <<2, 2>>, <<3, 3>>, <<1, 2>>, <<1, 3>>, <<2, 3>>>>
CompIdx(i, j) == LET a == IF i <= j THEN i ELSE j  b == IF i <= j THEN j ELSE i IN
                 IF a = b THEN a ELSE IF a = 1 /\ b = 2 THEN 4 ELSE IF a = 1 /\ b = 3 THEN 5 ELSE 6
Perms3 == {p \in [1..3 -> 1..3] : \A i, j \in 1..3 : i # j => p[i] # p[j]}
InvPerm(p) == [i \in 1..3 |-> CHOOSE j \in 1..3 : p[j] = i]
PermTr(p) == LET q == InvPerm(p) IN
             [m |-> [a \in 1..6 |-> CompIdx(q[PairOf[a][1]], q[PairOf[a][2]])], g |-> [a \in 1..6 |-> 1]]
ReflTr(r) == [m |-> [a \in 1..6 |-> a],
              g |-> [a \in 1..6 |-> IF (PairOf[a][1] = r) # (PairOf[a][2] = r) THEN -1 ELSE 1]]
ApplyTr(t, s) == [a \in 1..6 |-> t.g[a] * s[t.m[a]]]
IdPerm == [i \in 1..3 |-> i]
\* permutations that keep a stress of dimension n inside dimension n (2D: the third axis is fixed)
PermsOfDim(n) == IF n = 2 THEN {p \in Perms3 : p[3] = 3} ELSE Perms3
\* constant definitions (evaluated once by TLC)
PermGroup3 == {PermTr(p) : p \in Perms3 \ {IdPerm}}
PermGroup2 == {PermTr(p) : p \in PermsOfDim(2) \ {IdPerm}}
ReflGroup3 == {ReflTr(1), ReflTr(2), ReflTr(3)}
ReflGroup2 == {ReflTr(1)}
Group(c) == (IF Isotropic(c) THEN (IF c.n = 2 THEN PermGroup2 ELSE PermGroup3) ELSE {})
            \cup (IF c.n = 1 THEN {} ELSE IF c.n = 2 THEN ReflGroup2 ELSE ReflGroup3)

---------------------------------------------------------------------------------
(* (3) singular points.  Pressure-insensitive criteria are not differentiable on the hydrostatic axis (seq = 0);
   Hosford, Barlat, Drucker and Cazacu 2001 test it (seq_vM < seps, J2 <= seps^2) and document that the value, the
   normal and the second derivative are then zero.  The Rousselier-Tanguy-Besson surface has a vertex on the
   hydrostatic axis (its potential is linear in seq_vM) and the porous criteria at zero porosity are pressure
   insensitive: singular on the hydrostatic axis too.  Gurson-Tvergaard-Needleman and Michel-Suquet with a positive
   porosity are smooth there (quadratic in seq_vM) and singular at the null stress only.  Mohr-Coulomb: the apex.
   At a singular point only the value is judged (finite; zero up to 2^-16 of the stress unit when the criterion is
   pressure insensitive) and, where documented, the zero derivatives. *)
VanishesWhenSingular(c) == c.crit \in PressureInsensitive \/ (c.crit \in Porous /\ c.fn = 0)
Singular(c) == IF c.crit \in PressureInsensitive \cup {"mohrcoulomb", "rtb"} \/ (c.crit \in Porous /\ c.fn = 0)
               THEN Hydrostatic(c.s) /\ Unperturbed(c)
               ELSE \A i \in 1..6 : c.s[i] = 0
DocumentsZero(c) == c.crit \in {"hosford", "barlat", "drucker", "cazacu2001"}
\* Hosford / Barlat exponents below 2 have unbounded derivatives at coincident principal stresses: value only
DerivativesDefined(c) == /\ c.crit \notin ValueOnly
                         /\ (c.crit \in {"hosford", "barlat"} => c.par[1] >= 2 * c.pd)
EigenBased(c) == c.crit \in {"hosford", "barlat"}
Corner(c) == Coincident(c.s) \/ ~Unperturbed(c)
\* |x|^a is not twice continuously differentiable with a Lipschitz second derivative at x = 0 unless a is an even
\* integer (or a >= 4): for the other exponents nothing is demanded from the second derivative at coincident
\* principal stresses beyond symmetry
SecondDerivativeRegular(c) == ~(EigenBased(c) /\ Corner(c) /\ ~EvenExponent(c))
\* regions used to qualify the names of the failed obligations (one signature per criterion and region)
Region(c) ==
  CASE c.crit = "mohrcoulomb" /\ D3(c.s) = 0 -> ":J3=0"
    [] c.crit = "mohrcoulomb" /\ Coincident(c.s) -> ":lode=30"
    [] c.crit = "gtn" /\ Hydrostatic(c.s) /\ c.fn = 0 -> ":zero-porosity-hydrostatic"
    [] c.crit = "gtn" /\ Hydrostatic(c.s) /\ Tr(c.s) < 0 -> ":hydrostatic-compression"
    [] OTHER -> ""

---------------------------------------------------------------------------------
(* (4) admissible error classes.  Class d means |residual| <= 10^(-13 + 2 d) (d = 6: more, or NaN); residuals
   are dimensionless (stresses divided by the binary stress unit, second derivatives multiplied by it).
   - algebraic identities (variant agreement, Euler, dn : s = 0, symmetry, homogeneity, group action) are limited
     by the rounding of the evaluation: a few hundred ulp through the eigen solver and pow -> class 1 (1e-11);
     criteria defined by a scalar Newton iteration stopped at |S| < 1e-14 or |d seq| < seps / 10 -> class 2 (1e-9);
     eigen-based criteria at (nearly) coincident principal stresses inherit the accuracy of the default analytical
     eigen solver, documented as "more efficient but less accurate" (docs/web/tensors.md; about sqrt(epsilon) on
     the eigenvalues of a double root, property C03) -> class 3 (1e-7), one more for exponents above 4 (the error is
     multiplied by a - 1);
   - finite differences of the real code instantiated in long double (fourth-order stencil, step 2^-12 of the
     stress unit: truncation h^4 f^(5) / 30 ~ 1e-16 x derivative scale, rounding 1e-19 / h): class 2 (1e-9) for the
     normal and class 3 (1e-7) for the second derivative (derivative scales up to 1e3 for exponents 6..8 and for
     small Cazacu equivalent stresses); at coincident principal stresses the long double eigen solver is itself
     limited to about 1e-10 -> classes 3 and 4; exponents of the order of 100: finite differences of the second
     derivative only away from coincident principal stresses. *)
Newton(c) == c.crit \in {"gtn", "rtb"}
Large(c) == EigenBased(c) /\ c.par[1] > 8 * c.pd
TolAlg(c) == IF Newton(c) THEN 2
             ELSE IF EigenBased(c) /\ Corner(c) THEN (IF c.par[1] > 4 * c.pd THEN 4 ELSE 3)
             ELSE IF Large(c) THEN 2 ELSE 1
TolFDn(c) == IF EigenBased(c) /\ Corner(c) THEN (IF Large(c) THEN 4 ELSE 3) ELSE IF c.crit = "mohrcoulomb" THEN 3 ELSE 2
TolFDdn(c) == IF EigenBased(c) /\ Corner(c) THEN 4 ELSE 3
UsesFDdn(c) == ~(Large(c) /\ Corner(c))
\* the Abbo-Sloan rounding of Mohr-Coulomb is only C1 across |lode| = lodeT: finite differences are not used when the
\* stencil can straddle that surface.  sin^2(3 lode) = 2 D3^2 / M2^3, in percent: sin^2(75 deg) = 93.3, sin^2(87 deg) = 99.7
SinSq3LodePercent(s) == (200 * Sq(D3(s))) \div Cube(M2(s))
NearTransition(c) == /\ c.crit = "mohrcoulomb" /\ M2(c.s) > 0
                     /\ LET r == SinSq3LodePercent(c.s) t == c.par[3] IN
                        IF 2 * t >= 57 * c.pd THEN r >= 99
                        ELSE IF t = 10 * c.pd THEN r \in 22..28              \* sin^2(30 deg) = 25
                        ELSE IF t = 15 * c.pd THEN r \in 47..53              \* sin^2(45 deg) = 50
                        ELSE r \in 92..94
FDValid(c) == ~NearTransition(c)
TolPorosity == 3

---------------------------------------------------------------------------------
(* Sanity of the oracle, proved by TLC on the lattice it is used on. *)
Theorems(Stresses) ==
  /\ \A s \in Stresses : Disc(s) >= 0
  /\ \A s \in Stresses : IsDiag(s) =>
        /\ 2 * SumDiffPow(s, 4) = Sq(SumDiffPow(s, 2))                                 \* Hosford(4) = von Mises
        /\ 36 * SumDiffPow(s, 6) = 11 * Cube(M2(s)) - 4 * Sq(D3(s))                    \* closed form of Hosford(6)
        /\ SumDiffPow(s, 2) = M2(s)
        /\ SumDiffPow(s, 1) = 2 * Tresca(s)                                            \* Hosford(1) = Tresca
        /\ Coincident(s) = (s[1] = s[2] \/ s[1] = s[3] \/ s[2] = s[3])
        /\ D3(s) = (2 * s[1] - s[2] - s[3]) * (2 * s[2] - s[1] - s[3]) * (2 * s[3] - s[1] - s[2])
  \* the invariants are invariant under the whole group used for the isotropic criteria
  /\ \A s \in Stresses : \A p \in Perms3 : M2(ApplyTr(PermTr(p), s)) = M2(s) /\ D3(ApplyTr(PermTr(p), s)) = D3(s)
  /\ \A s \in Stresses : \A r \in 1..3 : M2(ApplyTr(ReflTr(r), s)) = M2(s) /\ D3(ApplyTr(ReflTr(r), s)) = D3(s)
=============================================================================

----------------------------- MODULE LogStrainJudge -----------------------------
(* JUDGE for C24: every observation of harness/logstrain.cxx against LogStrain.tla. *)
EXTENDS LogStrain, Judge
Check(name, b) == IF b THEN {} ELSE {name}
SeqEq(a, b) == Len(a) = Len(b) /\ \A i \in 1..Len(a) : a[i] = b[i]
Dim(o) == "N=" \o ToString(o.n)
Where(o) == Dim(o) \o (IF Perturbed(o) THEN ":near:t=" \o ToString(o.t) ELSE IF Ties(o) THEN ":ties" ELSE "")
Fails(o) ==
  IF o.threw THEN {"exception:" \o Where(o)}
  ELSE
  Check("non-finite:" \o Where(o), o.finite /\ o.fdok)
  \cup (IF ~Perturbed(o)
        THEN Check("hencky-strain-lagrangian:" \o Where(o), o.etight /\ SeqEq(o.eL, HenckyUnits(o)))
             \cup Check("hencky-strain-eulerian:" \o Where(o), o.etight /\ SeqEq(o.eE, HenckyUnits(o)))
        ELSE {})
  \cup Check("hencky-strain-array-overload:" \o Where(o), o.tabE <= 0)
  \cup Check("strain-rate-differs-between-settings:" \o Where(o), o.dELE <= 1)
  \cup Check("power-identity-second-piola-kirchhoff:" \o Where(o), o.pwS <= TolPower(o))
  \cup Check("power-identity-cauchy:" \o Where(o), o.pwSig <= TolPower(o))
  \cup Check("round-trip-second-piola-kirchhoff:" \o Where(o), o.rtS <= TolAlg(o))
  \cup Check("round-trip-cauchy:" \o Where(o), o.rtSig <= TolAlg(o))
  \cup Check("settings-disagree-on-cauchy-stress:" \o Where(o), o.sigLE <= TolAlg(o))
  \cup Check("cauchy-is-not-push-forward-of-second-piola-kirchhoff:" \o Where(o), o.sigS <= 1)
  \cup Check("eulerian-setting-accepts-second-piola-kirchhoff:" \o Where(o), o.n = 1 \/ o.eulerianPK2throws)
  \cup Check("material-moduli-are-not-derivative-of-converted-stress:" \o Where(o), o.tgM <= TolModuli(o))
  \cup Check("spatial-moduli-lagrangian-are-not-push-forward:" \o Where(o), o.pfL <= 1)
  \cup Check("spatial-moduli-eulerian-are-not-push-forward:" \o Where(o), o.pfE <= TolModuli(o) - 1)
  \cup Check("truesdell-moduli:" \o Where(o), o.truesdell <= 1)
  \cup (IF o.symK = 1 THEN Check("material-moduli-not-symmetric:" \o Where(o), o.symC <= TolModuli(o) - 1) ELSE {})
ASSUME JudgeAll(Fails)
=============================================================================

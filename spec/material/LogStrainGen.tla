------------------------------ MODULE LogStrainGen ------------------------------
(* GEN for C24 (harness/logstrain.cxx). TIER = "quick" | "thorough" (environment). *)
EXTENDS LogStrain, TLC, Json, IOUtils, SequencesExt
Thorough == IOEnv.TIER = "thorough"
Z3 == <<0, 0, 0>>
Exps == IF Thorough THEN -1..2 ELSE {-1, 0, 2}
KTriples == {<<a, b, c>> : a \in Exps, b \in Exps, c \in Exps}
Q3 == IF Thorough THEN {Identity4, <<1, 1, 0, 0>>, <<2, 1, 0, 0>>, <<1, 1, 1, 1>>, <<2, 1, -1, 0>>, <<1, 0, 2, 1>>, <<3, 1, 1, 0>>, <<0, 1, 1, 0>>}
      ELSE {Identity4, <<1, 1, 0, 0>>, <<2, 1, 0, 0>>, <<1, 1, 1, 1>>, <<2, 1, -1, 0>>}
R3 == {Identity4, <<1, 2, 0, 1>>}
Q2 == {Identity4, <<1, 0, 0, 1>>, <<2, 0, 0, 1>>, <<3, 0, 0, -1>>}
R2 == {Identity4, <<1, 0, 0, 2>>}
\* dual stresses (components 11 22 33 12 13 23) and tangent operators of the behaviour (tensor components C_ijkl on the
\* same six index pairs, row major): isotropic (lambda = 2, mu = 1), orthotropic, non symmetric with a normal / shear coupling
Ts == {<<1, -2, 3, 1, -1, 2>>, <<2, 2, 2, 0, 0, 0>>}
KIso == <<4, 2, 2, 0, 0, 0,  2, 4, 2, 0, 0, 0,  2, 2, 4, 0, 0, 0,  0, 0, 0, 1, 0, 0,  0, 0, 0, 0, 1, 0,  0, 0, 0, 0, 0, 1>>
KOrtho == <<5, 2, 1, 0, 0, 0,  2, 6, 3, 0, 0, 0,  1, 3, 7, 0, 0, 0,  0, 0, 0, 2, 0, 0,  0, 0, 0, 0, 3, 0,  0, 0, 0, 0, 0, 1>>
KNonSym == <<5, 1, 0, 1, 0, 0,  2, 6, 3, 0, 0, 0,  1, 0, 7, 0, 0, 0,  0, 1, 0, 2, 0, 0,  0, 0, 0, 0, 3, 0,  0, 0, 0, 0, 0, 1>>
Kss == {KIso, KOrtho, KNonSym}
IsSymK(K) == \A a, b \in 1..6 : K[(a - 1) * 6 + b] = K[(b - 1) * 6 + a]
Case(n, k, q, r, T, K, pert, t, kind) == [n |-> n, k |-> k, q |-> q, r |-> r, T |-> T, Ks |-> K, pert |-> pert, t |-> t, kind |-> kind,
                                          symK |-> IF IsSymK(K) THEN 1 ELSE 0]
C1 == {Case(1, k, Identity4, Identity4, T, K, Z3, 0, "lattice") : k \in {<<a, b, c>> : a \in -1..2, b \in -1..2, c \in -1..2}, T \in Ts, K \in Kss}
C2 == {Case(2, k, q, r, T, K, Z3, 0, "lattice") : k \in KTriples, q \in Q2, r \in R2, T \in Ts, K \in {KIso, KNonSym}}
C3 == {Case(3, k, q, r, T, K, Z3, 0, "lattice") : k \in KTriples, q \in Q3, r \in R3, T \in Ts, K \in {KOrtho, KNonSym}}
\* nearly coincident stretches: lambda_1 = 2^k1 (1 + 2^-t) against ties of every kind (pair, triple)
NearK == {<<0, 0, 1>>, <<1, 1, 1>>, <<0, 1, 0>>, <<2, 0, 2>>}
Near == {Case(1, k, Identity4, Identity4, <<1, -2, 3, 1, -1, 2>>, KOrtho, <<1, 0, 0>>, t, "near") : k \in NearK, t \in {10, 20, 30, 40, 50}}
        \cup {Case(2, k, q, <<1, 0, 0, 2>>, <<1, -2, 3, 1, -1, 2>>, KNonSym, <<1, 0, 0>>, t, "near") : k \in NearK, q \in {Identity4, <<2, 0, 0, 1>>}, t \in {10, 20, 30, 40, 50}}
        \cup {Case(3, k, q, <<1, 2, 0, 1>>, <<1, -2, 3, 1, -1, 2>>, K, <<1, 0, 0>>, t, "near") : k \in NearK, q \in {Identity4, <<2, 1, -1, 0>>}, K \in {KOrtho, KNonSym},
                                                                                                   t \in {10, 20, 30, 40, 50}}
Cases == C1 \cup C2 \cup C3 \cup Near
Number(S) == LET s == SetToSeq(S) IN [i \in 1..Len(s) |-> [id |-> i] @@ s[i]]
ASSUME OracleTheorems(Q3 \cup Q2 \cup R3 \cup R2)
ASSUME \A c \in Cases : c.n = 2 => IsZRot(c.q) /\ IsZRot(c.r)
ASSUME \A n \in 1..3 : /\ \E c \in Cases : c.n = n /\ Ties(c) /\ ~Perturbed(c)
                       /\ \E c \in Cases : c.n = n /\ ~Ties(c)
                       /\ \E c \in Cases : c.n = n /\ Perturbed(c)
ASSUME ndJsonSerialize(IOEnv.OUT, Number(Cases))
ASSUME PrintT(<<"GEN", Cardinality(C1), Cardinality(C2), Cardinality(C3), Cardinality(Near)>>)
=============================================================================

-------------------------- MODULE HomogenizationJudge --------------------------
(* JUDGE for C25: every observation of harness/homogenization.cxx against Homogenization.tla.
   Residual classes: d means |residual| <= 10^(-13 + 2 d).  Algebraic identities of closed-form code: class 1
   (1e-11); identities that go through a 6 x 6 inversion or the fixed point of the self-consistent scheme
   (stopped at a relative change of 1e-13): class 2 (1e-9). *)
EXTENDS Homogenization, Judge
Check(name, b) == IF b THEN {} ELSE {name}
SeqEq(a, b) == Len(a) = Len(b) /\ \A i \in 1..Len(a) : a[i] = b[i]
FailsBounds(o) ==
  Check("bounds:non-finite", o.finite)
  \cup Check("bounds:exact-value-bulk", o.tight /\ SeqEq(o.eK, Want(BoundsK(o), OnK(o))))
  \cup Check("bounds:exact-value-shear", o.tight /\ SeqEq(o.eG, Want(BoundsG(o), OnG(o))))
  \cup (IF o.d = 3
        THEN Check("bounds:order-bulk", RanksOk(o.rK, o.K, o)) \cup Check("bounds:order-shear", RanksOk(o.rG, o.G, o))
             \cup Check("bounds:voigt-reuss-not-isotropic", o.isodev <= 1)
        ELSE \* 2D: min phase modulus <= HS lower <= HS upper <= max phase modulus (over the listed phases)
             Check("bounds:order-bulk-2d", NonDecreasing(o.rK) /\ (OnePhase(o.K, o) => o.rK[2] = o.rK[3]))
             \cup Check("bounds:order-shear-2d", NonDecreasing(o.rG) /\ (OnePhase(o.G, o) => o.rG[2] = o.rG[3])))
FailsBiphasic(o) ==
  LET want == [i \in 1..4 |-> IF BiphasicOn(o)[i] THEN Biphasic(o)[i][1] ELSE 0]
      ds == DiluteAdmissible(o) IN
  Check("biphasic:non-finite", o.finite /\ (ds => o.finiteDS))
  \cup Check("biphasic:sphere-closed-form", o.tight /\ SeqEq(o.e, want))
  \cup (IF IsSphere(o.shape)
        THEN Check("biphasic:ellipsoid-with-equal-axes-is-not-sphere:mori-tanaka", o.sphIsoMT <= 1 /\ o.sphOriMT <= 1)
             \cup (IF ds THEN Check("biphasic:ellipsoid-with-equal-axes-is-not-sphere:dilute", o.sphIsoDS <= 1 /\ o.sphOriDS <= 1) ELSE {})
        ELSE {})
  \cup (IF o.f = 0 \/ SamePhases2(o) THEN Check("biphasic:does-not-reduce-to-matrix", o.dMatrixMT <= 1 /\ o.dMatrixDS <= 1) ELSE {})
  \cup Check("biphasic:aligned-mori-tanaka-not-symmetric", o.symMT <= 1)
  \cup Check("biphasic:isotropic-mori-tanaka-outside-voigt-reuss", NonDecreasing(o.rK) /\ NonDecreasing(o.rG))
\* ranks of <<HS lower, Mori-Tanaka, self-consistent, HS upper>>: estimate number i lies between the bounds
Within(r, i) == r[1] >= 0 /\ r[1] <= r[i] /\ r[i] <= r[4]
FailsMicro(o) ==
  Check("micro:non-finite", o.finite /\ o.added /\ o.f0ok /\ o.nloc = Len(o.K) + 1)
  \cup (IF ExactMicro(o) THEN Check("micro:mori-tanaka-closed-form", o.tight /\ o.e[1] = MicroMTK(o)[1] /\ o.e[2] = MicroMTG(o)[1]) ELSE {})
  \cup Check("micro:not-isotropic", o.isodev <= 2)
  \cup Check("micro:average-of-localisation-tensors-is-not-identity", o.avgMT <= 1 /\ o.avgSC <= 2)
  \cup Check("micro:stiffness-is-not-average-of-C-A", o.consMT <= 1 /\ o.consSC <= 2)
  \cup (IF NoInclusion(o) THEN Check("micro:does-not-reduce-to-matrix", o.dMatrix <= 2) ELSE {})
  \cup (IF IsSphere(o.shape)
        THEN Check("micro:self-consistent-equations", o.resSC <= 2)
             \cup Check("micro:mori-tanaka-outside-hashin-shtrikman", Within(o.rK, 2) /\ Within(o.rG, 2))
             \cup Check("micro:self-consistent-outside-hashin-shtrikman", Within(o.rK, 3) /\ Within(o.rG, 3))
        ELSE {})
\* sphere limit: perturbation of the semi-axes by 2^-t; the distance to the sphere tensor must be of that order
\* (class 4 = 1e-5 for t >= 14, class 5 = 1e-3 for t >= 10, class 6 above)
NearClass(t) == IF t >= 20 THEN 4 ELSE IF t >= 14 THEN 5 ELSE 6
Perturbed(o) == \E i \in 1..3 : o.pert[i] # 0
FailsEshelby(o) ==
  Check("eshelby:non-finite", o.finite)
  \cup Check("eshelby:sphere-closed-form", o.tight /\ SeqEq(o.e, SphereS(o.p, o.q)))
  \cup Check("eshelby:shape-independent-traces", o.tight /\ SeqEq(o.tr, Traces(o.p, o.q)))
  \cup Check("eshelby:hill-tensor-not-symmetric", o.symP <= 1)
  \cup Check("eshelby:hill-is-not-eshelby-times-compliance", o.dPS <= 1)
  \cup Check("eshelby:spheroid-and-ellipsoid-functions-disagree", o.dAxi <= 1 /\ o.dAxiP <= 1)
  \cup Check("eshelby:not-covariant-under-axis-relabelling", o.dCov <= 1)
  \cup Check("eshelby:numerical-integration-disagrees", o.dAniso <= 5)
  \cup (IF IsSphere(o.shape) /\ ~Perturbed(o) THEN Check("eshelby:equal-axes-is-not-sphere", o.dSphere = 0 /\ o.dASphere <= 1) ELSE {})
  \cup (IF IsSphere(o.shape) /\ Perturbed(o) THEN Check("eshelby:discontinuous-at-sphere", o.dSphere <= NearClass(o.t) /\ o.dASphere <= NearClass(o.t)) ELSE {})
  \cup Check("localisation:defining-identity", o.resA <= 2)
  \cup Check("localisation:identity-for-equal-phases", o.dA0 <= 1)
  \cup Check("localisation:sphere-closed-form", o.dACf <= 1)
Fails(o) ==
  IF o.threw THEN {"exception:" \o o.kind}
  ELSE IF o.kind = "bounds" THEN FailsBounds(o)
  ELSE IF o.kind = "biphasic" THEN FailsBiphasic(o)
  ELSE IF o.kind = "micro" THEN FailsMicro(o)
  ELSE FailsEshelby(o)
ASSUME JudgeAll(Fails)
=============================================================================

-------------------------------- MODULE LogStrain --------------------------------
(* C24 - the logarithmic strain handler is energetically consistent.

   Deformation gradients are built from data for which the Hencky strain is known exactly:
       F = R.U,   U = Q.diag(2^k1, 2^k2, 2^k3).Q^T,   Q = QuatMat(q) / |q|^2, R = QuatMat(r) / |r|^2
   (integer quaternions q, r: rational rotations), so that
       E_log = 1/2 log C = log U = ln 2 . Q.diag(k1, k2, k3).Q^T
   i.e.  |q|^4 E_log / ln 2 = QuatMat(q).diag(k).QuatMat(q)^T, an integer matrix computed here with Mat3.tla.
   E_log does not depend on the rotation R.  In 2D the rotations are about the third axis, in 1D they are the identity.
   Coincident stretches are ties between the k's; nearly coincident ones multiply 2^k1 by (1 + 2^-t).

   The strain measure of the handler is the Lagrangian Hencky strain 1/2 log C in BOTH settings (Miehe-Apel-Lambrecht
   strategy: docs/web/release-notes-3.1.md, ticket #60): the "Eulerian" setting only changes the target of the
   conversions (Cauchy stress and spatial moduli are produced directly instead of through the second Piola-Kirchhoff
   stress).  Energetic consistency fixes this reading: the dual stress T is defined by
       T : dE_log = S : dE_GL = J sigma : d                for every virtual dF   (dE_GL = sym(F^T dF), d = sym(dF F^-1))
   which the judge demands in both settings for every elementary dF, together with
       material moduli  C = dS / dE_GL  of the law  T(E) = T0 + Ks : (E - E0)   (derivative of the converted stress),
       spatial moduli = push-forward of C by F (both settings), Truesdell moduli = spatial moduli / J,
       round trips of the conversions and equality of the two settings on the Cauchy stress.
   Residuals are relative and abstracted into classes d: |residual| <= 10^(-13 + 2 d). *)
EXTENDS Integers, Sequences, FiniteSets, Mat3

Identity4 == <<1, 0, 0, 0>>
IsZRot(q) == q[2] = 0 /\ q[3] = 0
\* |q|^4 E_log / ln 2 as the six components 11 22 33 12 13 23
HenckyUnits(c) == LET QM == QuatMat(c.q) IN CompOf(Mul(QM, Mul(Diag(c.k[1], c.k[2], c.k[3]), Transpose(QM))))
Perturbed(c) == \E i \in 1..3 : c.pert[i] # 0
\* stretches (unperturbed) that coincide
Ties(c) == Cardinality({c.k[1], c.k[2], c.k[3]}) < 3
\* sanity of the oracle: QuatMat(q).QuatMat(q)^T = |q|^4 Id, det > 0, and the units matrix is symmetric with trace |q|^4 sum(k)
OracleTheorems(Qs) ==
  \A q \in Qs : LET QM == QuatMat(q) d == QuatNorm(q) IN
     /\ Mul(QM, Transpose(QM)) = Scale(d * d, Id3)
     /\ Det(QM) = d * d * d
     /\ \A k \in {<<1, 0, -1>>, <<2, 2, 0>>, <<1, 1, 1>>} :
           LET E == Mul(QM, Mul(Diag(k[1], k[2], k[3]), Transpose(QM))) IN
           IsSym(E) /\ Trace(E) = d * d * (k[1] + k[2] + k[3])

(* admissible classes.
   - algebraic relations between outputs of the same evaluation (round trips, Lagrangian versus Eulerian Cauchy
     stress, sigma = F S F^T / J, push-forward, Truesdell = spatial / J): rounding of a few 6 x 6 products and of
     the inversion of p -> class 1 (1e-11);
   - power identities: dE_log from fourth-order differences (steps 2^-10 and 2^-12 of the stretch scale, the smaller
     residual is kept) of the handler in long double against double results -> class 2 (1e-9);
   - derivative of the converted stress (same stencils; truncation (2^-10 / lambda_min)^4 times the fifth derivative
     of the logarithm at a stretch 1/2) -> class 3 (1e-7);
   - nearly coincident stretches (relative gap 2^(1-t), t = 10 .. 50 around the handler's 1e-14 threshold): the
     statement quantifies over every F, and first (second) divided differences of the logarithm can be evaluated to
     full accuracy (log1p, series), so the judge grants one more class only: 1e-7 on the stresses and on the
     relations between settings, 1e-5 on the moduli. *)
TolAlg(c) == IF ~Perturbed(c) THEN 1 ELSE 3
TolPower(c) == IF ~Perturbed(c) THEN 2 ELSE 3
TolModuli(c) == IF ~Perturbed(c) THEN 3 ELSE 4
=============================================================================

----------------------------- MODULE CriteriaJudge -----------------------------
(* JUDGE for C22: every observation of harness/criteria.cxx against Criteria.tla. *)
EXTENDS Criteria, Judge
Check(name, b) == IF b THEN {} ELSE {name}
Tag(o) == o.crit \o Region(o)
FailsSingular(o) ==
  Check("singular-value:" \o Tag(o), o.vfinite /\ (VanishesWhenSingular(o) => o.vsmall))
  \cup (IF DocumentsZero(o) THEN Check("singular-derivatives-not-zero:" \o Tag(o), o.dfinite /\ o.v12zero /\ o.nzero /\ o.dnzero) ELSE {})
FailsValue(o) ==
  LET e == Expect(o) IN
  Check("variants-disagree-on-value:" \o Tag(o), o.vcls <= TolAlg(o))
  \cup Check("non-finite-value:" \o Tag(o), o.vfinite)
  \cup (IF e[1] > 0 THEN Check("exact-relation:" \o Tag(o), o.etight /\ o.eq = e[3]) ELSE {})
  \cup (IF SandwichApplies(o) THEN Check("tresca-sandwich:" \o Tag(o), SandwichOk(o, o.v1024)) ELSE {})
  \cup (IF o.crit # "mohrcoulomb" THEN Check("value-not-positive:" \o Tag(o), o.vsign = 1) ELSE {})
FailsDerivatives(o) ==
  Check("non-finite-derivative:" \o Tag(o), o.finite)
  \cup Check("variants-disagree-on-normal:" \o Tag(o), o.ncls <= TolAlg(o))
  \cup (IF o.crit \in Porous THEN Check("variants-disagree-on-porosity-derivative:" \o Tag(o), o.fcls <= TolAlg(o)) ELSE {})
  \cup Check("second-derivative-not-symmetric:" \o Tag(o), o.sym <= TolAlg(o))
  \cup (IF FDValid(o) THEN Check("normal-is-not-gradient:" \o Tag(o), o.fdok /\ o.fdn <= TolFDn(o)) ELSE {})
  \cup Check("symmetry-group:" \o Tag(o), o.trok /\ o.trv <= TolAlg(o) /\ o.trn <= TolAlg(o))
  \cup (IF Homogeneous(o)
        THEN Check("euler-identity:" \o Tag(o), o.euler <= TolAlg(o) /\ o.euler1 <= TolAlg(o))
             \cup Check("homogeneity:" \o Tag(o), o.homok /\ o.homv <= TolAlg(o) /\ o.homn <= TolAlg(o))
        ELSE {})
  \cup (IF SecondDerivativeRegular(o)
        THEN Check("symmetry-group-second-derivative:" \o Tag(o), o.trdn <= TolAlg(o))
             \cup (IF UsesFDdn(o) /\ FDValid(o) THEN Check("second-derivative-is-not-gradient-of-normal:" \o Tag(o), o.fdok /\ o.fddn <= TolFDdn(o)) ELSE {})
             \cup (IF Homogeneous(o)
                   THEN Check("second-derivative-does-not-annihilate-stress:" \o Tag(o), o.dns <= TolAlg(o))
                        \cup Check("homogeneity-second-derivative:" \o Tag(o), o.homdn <= TolAlg(o))
                   ELSE {})
        ELSE {})
  \cup (IF o.crit \in Porous /\ o.fn > 0
        THEN Check("porosity-derivative-of-value:" \o Tag(o), o.fdfok /\ o.fdf <= TolPorosity)
             \cup Check("porosity-derivative-of-normal:" \o Tag(o), o.fdfok /\ o.fddnf <= TolPorosity)
        ELSE {})
Fails(o) ==
  IF o.threw THEN {"exception:" \o Tag(o)}
  ELSE IF Singular(o) THEN FailsSingular(o)
  ELSE FailsValue(o) \cup (IF DerivativesDefined(o) THEN FailsDerivatives(o) ELSE {})
ASSUME JudgeAll(Fails)
=============================================================================

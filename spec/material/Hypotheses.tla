------------------------------ MODULE Hypotheses ------------------------------
(* C28 - modelling hypotheses and orthotropic axes conventions.

   Part 1, the finite tables.  A hypothesis is identified by the identifier of its C++ enumerator.  Its
   string name is the concatenation of capitalised words; the dimension table is the documented one; the
   sizes of symmetric / unsymmetric tensors are *derived* from the dimension: the three diagonal components
   are always stored, plus one (symmetric) or two (unsymmetric) components per pair of in-plane axes.

   Part 2, the axes conventions (docs/web/tfel-material.md, "Orthotropic axes convention" and
   OrthotropicAxesConvention.hxx).  Material data are always given in the 3D material frame (1, 2, 3).
     Pipe  : (r, z, t) in 3D, axisymmetric and the two 1D hypotheses; (r, t, z) in plane stress, plane strain and
             generalised plane strain: the second and third axes are exchanged.
     Plate : (rolling, transverse, normal) everywhere; only valid in 3D and in the three plane hypotheses.
     Default : no distinction.
   Hence an axis permutation Sigma(h, c), lifted to the components of symmetric tensors; a reduced hypothesis
   keeps the components 1..StensorSize of the *local* frame.  Everything below (expansion, Hill tensor, stiffness)
   is "the 3D object, expressed in the local frame, restricted to the local components". *)
EXTENDS Integers, Sequences, FiniteSets
AGPE == "AXISYMMETRICALGENERALISEDPLANESTRAIN"
AGPS == "AXISYMMETRICALGENERALISEDPLANESTRESS"
AXIS == "AXISYMMETRICAL"
PS   == "PLANESTRESS"
PE   == "PLANESTRAIN"
GPE  == "GENERALISEDPLANESTRAIN"
TRI  == "TRIDIMENSIONAL"
HypSeq == <<AGPE, AGPS, AXIS, PS, PE, GPE, TRI>>
HypSet == {HypSeq[i] : i \in 1..Len(HypSeq)}
Words(h) == CASE h = AGPE -> <<"Axisymmetrical", "Generalised", "Plane", "Strain">>
              [] h = AGPS -> <<"Axisymmetrical", "Generalised", "Plane", "Stress">>
              [] h = AXIS -> <<"Axisymmetrical">>
              [] h = PS   -> <<"Plane", "Stress">>
              [] h = PE   -> <<"Plane", "Strain">>
              [] h = GPE  -> <<"Generalised", "Plane", "Strain">>
              [] h = TRI  -> <<"Tridimensional">>
UpWord(w) == CASE w = "Axisymmetrical" -> "AXISYMMETRICAL" [] w = "Generalised" -> "GENERALISED" [] w = "Plane" -> "PLANE"
               [] w = "Strain" -> "STRAIN" [] w = "Stress" -> "STRESS" [] w = "Tridimensional" -> "TRIDIMENSIONAL"
LowWord(w) == CASE w = "Axisymmetrical" -> "axisymmetrical" [] w = "Generalised" -> "generalised" [] w = "Plane" -> "plane"
                [] w = "Strain" -> "strain" [] w = "Stress" -> "stress" [] w = "Tridimensional" -> "tridimensional"
RECURSIVE Cat(_)
Cat(ws) == IF ws = <<>> THEN "" ELSE ws[1] \o Cat(Tail(ws))
MapSeq(f(_), s) == [i \in 1..Len(s) |-> f(s[i])]
Name(h) == Cat(Words(h))
UpperName(h) == Cat(MapSeq(UpWord, Words(h)))
LowerName(h) == Cat(MapSeq(LowWord, Words(h)))
Names == {Name(h) : h \in HypSet}
\* documented space dimension
Dim(h) == IF h \in {AGPE, AGPS} THEN 1 ELSE IF h \in {AXIS, PS, PE, GPE} THEN 2 ELSE 3
\* pairs of distinct axes a < b that lie in the first n axes
InPlanePairs(n) == {p \in (1..n) \X (1..n) : p[1] < p[2]}
StensorSize(n) == 3 + Cardinality(InPlanePairs(n))
TensorSize(n) == 3 + 2 * Cardinality(InPlanePairs(n))
\* strings that are NOT names of hypotheses: mutations of every name, other spellings, and a few fixed strings
Mutations(s) == {s \o " ", " " \o s, SubSeq(s, 1, Len(s) - 1), SubSeq(s, 2, Len(s)), s \o "s", s \o s, s \o "\n"}
ZWords(h) == MapSeq(LAMBDA w : IF w = "Generalised" THEN "Generalized" ELSE w, Words(h))
SpacedName(h) == LET w == Words(h) IN IF Len(w) = 1 THEN w[1] \o " " ELSE w[1] \o " " \o Cat(Tail(w))
Unknowns == (UNION {Mutations(Name(h)) : h \in HypSet}
             \cup {UpperName(h) : h \in HypSet} \cup {LowerName(h) : h \in HypSet}
             \cup {Cat(ZWords(h)) : h \in HypSet} \cup {SpacedName(h) : h \in HypSet}
             \cup {"", " ", "Undefined", "UndefinedHypothesis", "UNDEFINEDHYPOTHESIS", "3D", "2D", "1D", "Plane", "Strain",
                   "Generalised", "GeneralisedPlaneStress", "AxisymmetricalPlaneStrain", "AxisymmetricalGeneralised", "0", "*"})
            \ Names
(* ---- the table obligations on one observation of kind "table" ---- *)
Check(name, b) == IF b THEN {} ELSE {name}
TableFails(o) ==
  LET h == o.h n == Dim(o.h) IN
     Check("known-enumerator", o.known = 1)
     \cup Check("toString", o.toString = Name(h))
     \cup Check("toUpperCaseString", o.upper = h /\ h = UpperName(h))
     \cup Check("fromString", o.fromString = h)
     \cup Check("string-round-trip", o.roundtrip = o.name /\ o.name = Name(h))
     \cup Check("enum-round-trip", o.enumtrip = h)
     \cup Check("isModellingHypothesis", o.isHyp = 1)
     \cup Check("space-dimension", o.dim = n /\ o.dimT = n)
     \cup Check("stensor-size", o.ssize = StensorSize(n) /\ o.ssizeT = StensorSize(n) /\ o.ssizeM = StensorSize(n))
     \cup Check("tensor-size", o.tsize = TensorSize(n) /\ o.tsizeT = TensorSize(n) /\ o.tsizeM = TensorSize(n))
     \cup Check("listed-once", o.listed = 1)
UndefinedFails(o) == Check("undefined-hypothesis-rejected",
                           o.toString = "THROW" /\ o.upper = "THROW" /\ o.dim = -1 /\ o.ssize = -1 /\ o.tsize = -1)
ListFails(o) == Check("list-of-hypotheses", Len(o.list) = 7 /\ {o.list[i] : i \in 1..Len(o.list)} = HypSet)
UnknownFails(o) == Check("unknown-string-rejected", o.fromString = "THROW" /\ o.isHyp = 0)

(* ---- axes conventions ---- *)
Conventions == {"DEFAULT", "PIPE", "PLATE"}
PlaneHyps == {PS, PE, GPE}
\* combinations that the documentation allows
ValidCombination(h, c) == c # "PLATE" \/ h \in PlaneHyps \cup {TRI}
\* local axis i of hypothesis h is the material (3D) axis Sigma(h, c)[i]
Sigma(h, c) == IF c = "PIPE" /\ h \in PlaneHyps THEN <<1, 3, 2>> ELSE <<1, 2, 3>>
\* components of a symmetric tensor: 11 22 33 12 13 23 (TFEL's storage order)
Comp == <<{1}, {2}, {3}, {1, 2}, {1, 3}, {2, 3}>>
CompIndex(axes) == CHOOSE k \in 1..6 : Comp[k] = axes
\* local component k holds the 3D component P(h, c)[k]
P(h, c) == [k \in 1..6 |-> CompIndex({Sigma(h, c)[a] : a \in Comp[k]})]
LocalSize(h) == StensorSize(Dim(h))
\* a 3D symmetric tensor (six components) seen from hypothesis h
ReduceVec(h, c, v) == [k \in 1..LocalSize(h) |-> v[P(h, c)[k]]]
\* a 3D fourth order tensor (6 x 6) seen from hypothesis h
ReduceMat(h, c, M) == [i \in 1..LocalSize(h) |-> [j \in 1..LocalSize(h) |-> M[P(h, c)[i]][P(h, c)[j]]]]

\* stress free expansion: diagonal in the material frame
SfeFails(o) == LET exp == ReduceVec(o.h, o.c, <<o.v[1], o.v[2], o.v[3], 0, 0, 0>>) IN
     Check("available", o.avail = 1)
     \cup (IF o.avail = 1 THEN Check("expansion:" \o o.c, o.tight = 1 /\ o.out = exp) ELSE {})

(* Hill: documented quadratic form on the true components s = (s11 s22 s33 s12 s13 s23),
     F (s11 - s22)^2 + G (s22 - s33)^2 + H (s33 - s11)^2 + 2 L s12^2 + 2 M s13^2 + 2 N s23^2
   and H is the matrix of that form on TFEL's vectors (off-diagonal components scaled by sqrt 2). *)
Sq(x) == x * x
HillForm(co, s) == co[1] * Sq(s[1] - s[2]) + co[2] * Sq(s[2] - s[3]) + co[3] * Sq(s[3] - s[1])
                   + 2 * co[4] * Sq(s[4]) + 2 * co[5] * Sq(s[5]) + 2 * co[6] * Sq(s[6])
Unit(i) == [k \in 1..6 |-> IF k = i THEN 1 ELSE 0]
Plus(u, v) == [k \in 1..6 |-> u[k] + v[k]]
Polar2(co, i, j) == HillForm(co, Plus(Unit(i), Unit(j))) - HillForm(co, Unit(i)) - HillForm(co, Unit(j))   \* = 2 B(ei, ej)
\* weight of component k in TFEL's normalisation (square of the scaling factor)
W(k) == IF k <= 3 THEN 1 ELSE 2
Hill3D(co) == [i \in 1..6 |-> [j \in 1..6 |->
                 IF i = j THEN HillForm(co, Unit(i)) \div W(i)
                 ELSE IF i <= 3 /\ j <= 3 THEN Polar2(co, i, j) \div 2 ELSE 0]]
\* the documented matrix (Hill.hxx), used to cross-check the derivation
HillDoc(co) == LET F == co[1] G == co[2] H == co[3] IN
   <<<<F + H, -F, -H, 0, 0, 0>>, <<-F, G + F, -G, 0, 0, 0>>, <<-H, -G, H + G, 0, 0, 0>>,
     <<0, 0, 0, co[4], 0, 0>>, <<0, 0, 0, 0, co[5], 0>>, <<0, 0, 0, 0, 0, co[6]>>>>
\* a local stress state (true components, local frame) embedded in 3D: inverse of the reduction
Embed(h, c, s) == [k \in 1..6 |-> IF \E l \in 1..LocalSize(h) : P(h, c)[l] = k
                                  THEN s[CHOOSE l \in 1..LocalSize(h) : P(h, c)[l] = k] ELSE 0]
\* Hill stress computed with an observed matrix q on local true components s
FormOf(q, n, s) == LET w(k) == IF k <= 3 THEN 1 ELSE 2 IN
   \* cross terms between diagonal and shear components would be irrational: they must vanish
   IF \E i \in 1..n : \E j \in 1..n : (i <= 3) # (j <= 3) /\ q[i][j] # 0 THEN -1
   ELSE LET RECURSIVE Sum(_, _)
            Sum(i, j) == IF i > n THEN 0 ELSE IF j > n THEN Sum(i + 1, 1)
                         ELSE (IF (i <= 3) = (j <= 3) THEN w(i) * s[i] * q[i][j] * s[j] ELSE 0) + Sum(i, j + 1)
        IN Sum(1, 1)
\* probe states: unit states, sums and differences of two unit states, and two dense states
ProbeStresses(n) == {[k \in 1..n |-> IF k = i THEN 1 ELSE 0] : i \in 1..n}
                    \cup {[k \in 1..n |-> IF k = i THEN 1 ELSE IF k = j THEN e ELSE 0] : i \in 1..n, j \in 1..n, e \in {-1, 2}}
                    \cup {[k \in 1..n |-> k], [k \in 1..n |-> IF k % 2 = 0 THEN -k ELSE k + 1]}
HillFails(o) == LET n == LocalSize(o.h) exp == ReduceMat(o.h, o.c, Hill3D(o.co)) IN
     Check("available", o.avail = 1)
     \cup (IF o.avail = 1
           THEN Check("hill:" \o o.c, o.tight = 1 /\ o.q = exp)
                \cup Check("hill-aliases-agree", o.same = 1)
                \cup Check("hill-response:" \o o.c,
                           Len(o.q) = n /\ \A s \in ProbeStresses(n) : FormOf(o.q, n, s) = HillForm(o.co, Embed(o.h, o.c, s)))
           ELSE {})

(* Stiffness.  The material is *constructed* from an integer symmetric positive definite 3 x 3 block C3 (normal
   components) and three shear moduli G = <<G12, G23, G13>>, so that the 3D stiffness is known exactly:
   compliance S = C3^-1 = Adj / Det, E_i = 1 / S_ii, nu_ij = - S_ij E_i (the documented engineering constants). *)
Det3(A) == A[1][1] * (A[2][2] * A[3][3] - A[2][3] * A[3][2]) - A[1][2] * (A[2][1] * A[3][3] - A[2][3] * A[3][1])
           + A[1][3] * (A[2][1] * A[3][2] - A[2][2] * A[3][1])
Nx(i) == (i % 3) + 1
Pv(i) == ((i + 1) % 3) + 1
Cof(A, i, j) == A[Nx(i)][Nx(j)] * A[Pv(i)][Pv(j)] - A[Nx(i)][Pv(j)] * A[Pv(i)][Nx(j)]
\* engineering constants as exact fractions <<numerator, denominator>>
Young(A) == [i \in 1..3 |-> <<Det3(A), Cof(A, i, i)>>]
\* order of the arguments of computeOrthotropicStiffnessTensor: nu12, nu23, nu13
Poisson(A) == <<<<-Cof(A, 1, 2), Cof(A, 1, 1)>>, <<-Cof(A, 2, 3), Cof(A, 2, 2)>>, <<-Cof(A, 1, 3), Cof(A, 1, 1)>>>>
SPD(A) == A[1][1] > 0 /\ A[1][1] * A[2][2] - A[1][2] * A[2][1] > 0 /\ Det3(A) > 0
Stiff3D(A, G) == [i \in 1..6 |-> [j \in 1..6 |->
                    IF i <= 3 /\ j <= 3 THEN A[i][j]
                    ELSE IF i # j THEN 0
                    ELSE IF i = 4 THEN 2 * G[1] ELSE IF i = 5 THEN 2 * G[3] ELSE 2 * G[2]]]
\* ALTERED only has an effect where the out of plane stress vanishes; covered here: plane stress (local axis 3)
Altered(h, alt) == alt = 1 /\ h = PS
\* k x stiffness, with k = 1 (unaltered) or k = R[3][3] (static condensation of the third local axis)
ScaleOf(h, c, alt, A, G) == IF Altered(h, alt) THEN ReduceMat(h, c, Stiff3D(A, G))[3][3] ELSE 1
ExpectedStiff(h, c, alt, A, G) ==
  LET R == ReduceMat(h, c, Stiff3D(A, G)) n == LocalSize(h) IN
    IF ~Altered(h, alt) THEN R
    ELSE [i \in 1..n |-> [j \in 1..n |->
            IF i = 3 \/ j = 3 THEN 0
            ELSE IF i <= 2 /\ j <= 2 THEN R[i][j] * R[3][3] - R[i][3] * R[3][j]
            ELSE R[i][j] * R[3][3]]]
StiffFails(o) ==
     Check("available:stiffness:" \o o.c, o.avail = 1)
     \cup (IF o.avail = 1
           THEN Check("stiffness:" \o o.c \o (IF o.alt = 1 THEN ":altered" ELSE ""),
                      /\ o.k = ScaleOf(o.h, o.c, o.alt, o.C3, o.G)
                      /\ o.tight = 1
                      /\ o.q = ExpectedStiff(o.h, o.c, o.alt, o.C3, o.G))
           ELSE {})

(* ---- sanity of the oracle ---- *)
TestCo == <<2, 3, 5, 7, 11, 13>>
Theorems ==
  /\ \A h \in HypSet : UpperName(h) = h
  /\ Cardinality(Names) = 7
  /\ <<StensorSize(1), StensorSize(2), StensorSize(3)>> = <<3, 4, 6>>      \* the documented sizes
  /\ <<TensorSize(1), TensorSize(2), TensorSize(3)>> = <<3, 5, 9>>
  /\ Hill3D(TestCo) = HillDoc(TestCo)
  /\ \A i, j \in 1..6 : (i <= 3) # (j <= 3) => Polar2(TestCo, i, j) = 0
  \* the lifted permutations are permutations, and the local components of a reduced hypothesis stay in the 3D set
  /\ \A h \in HypSet : \A c \in Conventions : {P(h, c)[k] : k \in 1..6} = 1..6
  /\ P(PE, "PIPE") = <<1, 3, 2, 5, 4, 6>>
  /\ \A h \in HypSet : P(h, "PLATE") = <<1, 2, 3, 4, 5, 6>> /\ P(h, "DEFAULT") = <<1, 2, 3, 4, 5, 6>>
=============================================================================

--------------------------------- MODULE Moduli ---------------------------------
(* C21 - isotropic moduli and stiffness tensors are mutually consistent.
   Everything is a rational function of the elastic constants, so the specification computes it exactly
   (Rat.tla; matrices are inverted through an integer scaling to keep TLC's 32-bit integers small).

   Conventions (docs/web/tfel-material.md, TFEL/Material/OrthotropicAxesConvention.hxx, docs/web/HookeStressPotential.md):
   - symmetric tensors are stored (11, 22, 33, sqrt2 12, sqrt2 13, sqrt2 23): the shear diagonal of a stiffness tensor is 2 G;
   - 1D hypotheses store (rr, zz, tt), 2D hypotheses the first four components, 3D all six;
   - the stiffness tensor of a modelling hypothesis is the restriction of the 3D tensor to the stored components;
     the ALTERED tensor of the plane-stress hypotheses is the stiffness under the constraint that the out-of-plane
     stress vanishes, i.e. the inverse of the compliance restricted to the in-plane components (zero row and column
     for the out-of-plane component): third axis in PLANESTRESS, axial axis zz (second component) in
     AXISYMMETRICALGENERALISEDPLANESTRESS;
   - PIPE convention: in PLANESTRESS, PLANESTRAIN and GENERALISEDPLANESTRAIN the second and third material axes are
     exchanged with respect to 3D; PLATE: the material axes are those of 3D (valid in 3D and the three plane hypotheses). *)
EXTENDS Integers, Sequences, FiniteSets, Rat

Half == <<1, 2>>
One == RI(1)
\* ---- isotropic moduli ---------------------------------------------------------------------------
FromYN(E, nu) == [young |-> E, nu |-> nu,
                  lambda |-> RDiv(RMul(E, nu), RMul(RAdd(One, nu), RSub(One, RMul(RI(2), nu)))),
                  mu |-> RDiv(E, RMul(RI(2), RAdd(One, nu))),
                  kappa |-> RDiv(E, RMul(RI(3), RSub(One, RMul(RI(2), nu))))]
FromKG(K, G) == [young |-> RDiv(RMul(RI(9), RMul(K, G)), RAdd(RMul(RI(3), K), G)),
                 nu |-> RDiv(RSub(RMul(RI(3), K), RMul(RI(2), G)), RAdd(RMul(RI(6), K), RMul(RI(2), G))),
                 lambda |-> RSub(K, RDiv(RMul(RI(2), G), RI(3))), mu |-> G, kappa |-> K]
FromLM(l, m) == [young |-> RDiv(RMul(m, RAdd(RMul(RI(3), l), RMul(RI(2), m))), RAdd(l, m)),
                 nu |-> RDiv(l, RMul(RI(2), RAdd(l, m))),
                 lambda |-> l, mu |-> m, kappa |-> RAdd(l, RDiv(RMul(RI(2), m), RI(3)))]
From(src, a, b) == IF src = "YN" THEN FromYN(a, b) ELSE IF src = "KG" THEN FromKG(a, b) ELSE FromLM(a, b)
Admissible(m) == RLt(RI(0), m.young) /\ RLt(RI(-1), m.nu) /\ RLt(m.nu, Half)
\* the three parametrisations are mutually inverse, and admissibility reads K > 0, G > 0
ModuliTheorems(S) ==
  \A m \in S : /\ FromKG(m.kappa, m.mu) = m /\ FromLM(m.lambda, m.mu) = m /\ FromYN(m.young, m.nu) = m
               /\ Admissible(m) <=> (RLt(RI(0), m.kappa) /\ RLt(RI(0), m.mu))

\* ---- matrices -------------------------------------------------------------------------------------
Mat(n, F(_, _)) == [i \in 1..n |-> [j \in 1..n |-> F(i, j)]]
RECURSIVE GCD2(_, _)
GCD2(a, b) == IF b = 0 THEN a ELSE GCD2(b, a % b)
LCM2(a, b) == (a \div GCD2(a, b)) * b
RECURSIVE LCMSeq(_)
LCMSeq(s) == IF Len(s) = 0 THEN 1 ELSE LCM2(Head(s)[2], LCMSeq(Tail(s)))     \* lcm of the denominators of a sequence of rationals
Flat(M, n) == [k \in 1..(n * n) |-> M[((k - 1) \div n) + 1][((k - 1) % n) + 1]]
\* inverse of a symmetric 3x3 (2x2) rational matrix through an integer matrix Mi = D S
Scaled(S, n) == LET D == LCMSeq(Flat(S, n)) IN [D |-> D, M |-> Mat(n, LAMBDA i, j : S[i][j][1] * (D \div S[i][j][2]))]
Det3(M) == M[1][1] * (M[2][2] * M[3][3] - M[2][3] * M[3][2]) - M[1][2] * (M[2][1] * M[3][3] - M[2][3] * M[3][1])
           + M[1][3] * (M[2][1] * M[3][2] - M[2][2] * M[3][1])
Nx(i) == (i % 3) + 1
Cof3(M, i, j) == M[Nx(i)][Nx(j)] * M[Nx(Nx(i))][Nx(Nx(j))] - M[Nx(i)][Nx(Nx(j))] * M[Nx(Nx(i))][Nx(j)]    \* cyclic cofactor (sign included)
Inv3(S) == LET sc == Scaled(S, 3) IN Mat(3, LAMBDA i, j : RNorm(sc.D * Cof3(sc.M, j, i), Det3(sc.M)))
Inv2(S) == LET sc == Scaled(S, 2)
               M == sc.M
               det == M[1][1] * M[2][2] - M[1][2] * M[2][1]
           IN  <<<<RNorm(sc.D * M[2][2], det), RNorm(-sc.D * M[1][2], det)>>, <<RNorm(-sc.D * M[2][1], det), RNorm(sc.D * M[1][1], det)>>>>
SPD3(S) == LET M == Scaled(S, 3).M IN M[1][1] > 0 /\ M[1][1] * M[2][2] - M[1][2] * M[2][1] > 0 /\ Det3(M) > 0

\* ---- orthotropic elasticity ------------------------------------------------------------------------
\* P = [E |-> <<E1, E2, E3>>, n |-> <<n12, n23, n13>>, G |-> <<G12, G23, G13>>]
Compliance(P) ==
  LET s12 == RNeg(RDiv(P.n[1], P.E[1]))
      s23 == RNeg(RDiv(P.n[2], P.E[2]))
      s13 == RNeg(RDiv(P.n[3], P.E[1]))
  IN  <<<<RDiv(One, P.E[1]), s12, s13>>, <<s12, RDiv(One, P.E[2]), s23>>, <<s13, s23, RDiv(One, P.E[3])>>>>
AdmissibleOrtho(P) == SPD3(Compliance(P)) /\ \A i \in 1..3 : RLt(RI(0), P.G[i])
IsoParams(m) == [E |-> <<m.young, m.young, m.young>>, n |-> <<m.nu, m.nu, m.nu>>, G |-> <<m.mu, m.mu, m.mu>>]
Hyps == {"TRIDIMENSIONAL", "AXISYMMETRICAL", "PLANESTRAIN", "GENERALISEDPLANESTRAIN", "PLANESTRESS",
         "AXISYMMETRICALGENERALISEDPLANESTRAIN", "AXISYMMETRICALGENERALISEDPLANESTRESS"}
Dim(h) == IF h = "TRIDIMENSIONAL" THEN 3
          ELSE IF h \in {"AXISYMMETRICALGENERALISEDPLANESTRAIN", "AXISYMMETRICALGENERALISEDPLANESTRESS"} THEN 1 ELSE 2
Size(h) == IF Dim(h) = 1 THEN 3 ELSE IF Dim(h) = 2 THEN 4 ELSE 6
PlaneHyps == {"PLANESTRESS", "PLANESTRAIN", "GENERALISEDPLANESTRAIN"}
Convs == {"DEFAULT", "PIPE", "PLATE"}
ValidConv(c, h) == c # "PLATE" \/ h \in PlaneHyps \cup {"TRIDIMENSIONAL"}
HasAltered(h) == h \in {"PLANESTRESS", "AXISYMMETRICALGENERALISEDPLANESTRESS"}
\* material axis carried by each axis of the frame of the hypothesis
Axis(c, h) == IF c = "PIPE" /\ h \in PlaneHyps THEN <<1, 3, 2>> ELSE <<1, 2, 3>>
\* shear moduli G12, G13, G23 of the frame (in this storage order) from P.G = <<G12, G23, G13>>
FrameShear(P, c, h) == IF c = "PIPE" /\ h \in PlaneHyps THEN <<P.G[3], P.G[1], P.G[2]>> ELSE <<P.G[1], P.G[3], P.G[2]>>
Zero == RI(0)
Stiffness(P, h, altered, c) ==
  LET ax == Axis(c, h)
      S == Compliance(P)
      Sf == Mat(3, LAMBDA i, j : S[ax[i]][ax[j]])
      sh == FrameShear(P, c, h)
      out == IF ~altered THEN 0 ELSE IF h = "PLANESTRESS" THEN 3 ELSE IF h = "AXISYMMETRICALGENERALISEDPLANESTRESS" THEN 2 ELSE 0
      keep == IF out = 3 THEN <<1, 2>> ELSE <<1, 3>>
      C3 == Inv3(Sf)
      C2 == Inv2(Mat(2, LAMBDA i, j : Sf[keep[i]][keep[j]]))
      Pos(i) == IF i = keep[1] THEN 1 ELSE 2
      N(i, j) == IF out = 0 THEN C3[i][j] ELSE IF i = out \/ j = out THEN Zero ELSE C2[Pos(i)][Pos(j)]
  IN  Mat(Size(h), LAMBDA i, j : IF i <= 3 /\ j <= 3 THEN N(i, j) ELSE IF i = j THEN RMul(RI(2), sh[i - 3]) ELSE Zero)
\* the isotropic tensor lambda I x I + 2 mu Id, and consistency of the two descriptions
Iso3D(m) == Mat(6, LAMBDA i, j : IF i <= 3 /\ j <= 3 THEN (IF i = j THEN RAdd(m.lambda, RMul(RI(2), m.mu)) ELSE m.lambda)
                                 ELSE IF i = j THEN RMul(RI(2), m.mu) ELSE Zero)
IsoStiffness(m, h, altered) == Stiffness(IsoParams(m), h, altered, "DEFAULT")
\* projection on the isotropic tensors J and K (computeKappaMu), exact
Proj(C) == LET cj == RDiv(RAdd(RAdd(RAdd(C[1][1], C[2][2]), C[3][3]),
                               RMul(RI(2), RAdd(RAdd(C[1][2], C[1][3]), C[2][3]))), RI(3))
               tr == RAdd(RAdd(RAdd(C[1][1], C[2][2]), C[3][3]), RAdd(RAdd(C[4][4], C[5][5]), C[6][6]))
           IN  [kappa |-> RDiv(cj, RI(3)), mu |-> RDiv(RSub(tr, cj), RI(10))]
StiffnessTheorems(S) ==
  \A m \in S : Admissible(m) =>
     /\ AdmissibleOrtho(IsoParams(m))
     /\ IsoStiffness(m, "TRIDIMENSIONAL", FALSE) = Iso3D(m)
     /\ Proj(Iso3D(m)) = [kappa |-> m.kappa, mu |-> m.mu]
     \* symmetric positive definite: Sylvester on the normal block (a b b / b a b / b b a) and positive shear terms
     /\ LET a == RAdd(m.lambda, RMul(RI(2), m.mu))
            b == m.lambda
        IN  /\ RLt(Zero, a) /\ RLt(RMul(b, b), RMul(a, a)) /\ RLt(Zero, RAdd(a, RMul(RI(2), b))) /\ RLt(Zero, m.mu)
     \* the plane-stress tensor is E / (1 - nu^2) (1 nu / nu 1)
     /\ LET ps == IsoStiffness(m, "PLANESTRESS", TRUE)
            d == RDiv(m.young, RSub(One, RMul(m.nu, m.nu)))
        IN  ps[1][1] = d /\ ps[2][2] = d /\ ps[1][2] = RMul(m.nu, d) /\ ps[3][3] = Zero /\ ps[4][4] = RMul(RI(2), m.mu)
\* perturbations used as negative controls for isIsotropic (cubic symmetry): isotropic iff c11 - c12 = c44
Perturbed(C, pert, m) ==
  Mat(6, LAMBDA i, j : IF pert = "shear" /\ i = 4 /\ j = 4 THEN RMul(RI(2), C[i][j])
                       ELSE IF pert = "c12" /\ ((i = 1 /\ j = 2) \/ (i = 2 /\ j = 1)) THEN RAdd(C[i][j], m.mu)
                       ELSE C[i][j])
IsIsotropicTensor(C) == C = Iso3D([lambda |-> RSub(Proj(C).kappa, RDiv(RMul(RI(2), Proj(C).mu), RI(3))), mu |-> Proj(C).mu])
=============================================================================

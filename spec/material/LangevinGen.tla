------------------------------ MODULE LangevinGen ------------------------------
(* GEN for C26: a lattice of arguments y = n/d in (-1, 1), coarse (k/16, k/64 in thorough), fine near 0 (+-2^-k)
   and near the pole (+-(1 - 2^-k)), plus the neighbourhood of the branch point 0.84136 of the Bergstrom-Boyce formula.
   fd = 1 when a central difference of relative step 2^-12 (1 - |y|) stays on one branch (derivative obligation). *)
EXTENDS Langevin, TLC, Json, IOUtils, SequencesExt
Thorough == IOEnv.TIER = "thorough"
RECURSIVE Pow2(_)
Pow2(k) == IF k = 0 THEN 1 ELSE 2 * Pow2(k - 1)
N0 == IF Thorough THEN 64 ELSE 16
Coarse == {RNorm(k, N0) : k \in (1 - N0)..(N0 - 1)}
Ks == {5, 6, 8, 10, 12, 16, 20} \cup (IF Thorough THEN {7, 9, 14, 18, 24, 28} ELSE {})
NearZero == UNION {{<<1, Pow2(k)>>, <<-1, Pow2(k)>>} : k \in Ks}
NearPole == UNION {{<<Pow2(k) - 1, Pow2(k)>>, <<1 - Pow2(k), Pow2(k)>>} : k \in Ks}
\* 0.84136 = 10517 / 12500; neighbours at +- 1e-6 (same denominator 10^6 keeps the integers small)
Kink == {<<s * (841360 + e), 1000000>> : s \in {-1, 1}, e \in {-1, 0, 1}}
Ys == Coarse \cup NearZero \cup NearPole \cup {RNorm(k[1], k[2]) : k \in Kink}
IsKink(y) == Lt(<<84, 100>>, RAbs(y)) /\ Lt(RAbs(y), <<85, 100>>) /\ y[2] > 1000
Points == {[kind |-> "point", a |-> a, y |-> y, fd |-> IF IsKink(y) THEN 0 ELSE 1, ys |-> <<>>] : a \in Approximations, y \in Ys}
\* monotonicity: the whole lattice, sorted, per approximation
Sorted == SortSeq(SetToSeq(Ys), LAMBDA u, v : Lt(u, v))
Ranks == {[kind |-> "ranks", a |-> a, y |-> <<0, 1>>, fd |-> 0, ys |-> Sorted] : a \in Approximations}
Cases == SetToSeq(Points) \o SetToSeq(Ranks)
Numbered == [i \in 1..Len(Cases) |-> [id |-> i] @@ Cases[i]]
ASSUME \A y \in Ys : InDomain(y)
\* the product-free comparison agrees with cross-multiplication where the latter does not overflow
ASSUME \A u \in Coarse, v \in Coarse \cup {<<1, 1024>>, <<-1023, 1024>>, <<10517, 12500>>} : Lt(u, v) = RLt(u, v) /\ Lt(v, u) = RLt(v, u)
\* vacuity: every zone is populated, every accuracy obligation of the table is exercised for the approximations it concerns
ASSUME {Zone(y) : y \in Ys} = {"zero", "origin", "coarse", "pole"}
ASSUME \A a \in Approximations : {o[1] : o \in UNION {Accuracy(a, y) : y \in Ys}} =
          {"cell", "origin"} \cup (IF HasPole(a) THEN {"pole"} ELSE {}) \cup (IF IsTaylor(a) THEN {"taylor19"} ELSE {})
ASSUME \A y \in Ys : RNeg(y) \in Ys
ASSUME ndJsonSerialize(IOEnv.OUT, Numbered)
ASSUME PrintT(<<"GEN", Len(Cases), Cardinality(Ys)>>)
=============================================================================

---------------------------- MODULE MTestSolverMC ----------------------------
\* constants of the model-checking configurations of MTestSolver (records cannot be written in a .cfg)
EXTENDS MTestSolver
Unset == -16     \* @MinimalTimeStep not given: the code's -1, one time unit = 16 ticks here
\* fixed halving (default) on two intervals
StaticConfs == {[times |-> <<0, 64, 192>>, maxsub |-> m, dyn |-> FALSE, mindt |-> Unset, maxdt |-> 0] : m \in {1, 2, 4}}
\* dynamic time step scaling, with and without @MinimalTimeStep
DynamicConfs == {[times |-> <<0, 32, 96>>, maxsub |-> 3, dyn |-> TRUE, mindt |-> md, maxdt |-> mx] : md \in {Unset, 4}, mx \in {0, 12}}
AllConfs == StaticConfs \cup DynamicConfs
MCFactors == {<<1, 4>>, <<3, 8>>, <<1, 8>>}
=============================================================================

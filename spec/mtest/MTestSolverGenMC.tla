-------------------------- MODULE MTestSolverGenMC --------------------------
EXTENDS MTestSolverGen
Unset == -16
QuickConfs == {[times |-> <<0, 64, 192>>, maxsub |-> 3, dyn |-> FALSE, mindt |-> Unset, maxdt |-> 0],
               [times |-> <<16, 80>>, maxsub |-> 2, dyn |-> FALSE, mindt |-> Unset, maxdt |-> 0],
               [times |-> <<0, 64, 96>>, maxsub |-> 3, dyn |-> TRUE, mindt |-> Unset, maxdt |-> 0],
               [times |-> <<0, 64>>, maxsub |-> 4, dyn |-> TRUE, mindt |-> 4, maxdt |-> 0],
               [times |-> <<0, 64, 128>>, maxsub |-> 3, dyn |-> TRUE, mindt |-> 2, maxdt |-> 12]}
ThoroughConfs == QuickConfs \cup
              {[times |-> <<0, 64, 192, 256>>, maxsub |-> 4, dyn |-> FALSE, mindt |-> Unset, maxdt |-> 0],
               [times |-> <<0, 128, 192>>, maxsub |-> 4, dyn |-> TRUE, mindt |-> Unset, maxdt |-> 0],
               [times |-> <<0, 128>>, maxsub |-> 5, dyn |-> TRUE, mindt |-> 8, maxdt |-> 24]}
GenFactors == {<<1, 4>>, <<3, 8>>, <<1, 8>>}
=============================================================================

SPECIFICATION Spec
CONSTANTS
  Algos <- MCAlgos
  IterMaxs <- MCIterMaxs
  HookBug = TRUE
INVARIANTS TypeOK CommitTested

SPECIFICATION FairSpec
CONSTANTS
  Algos <- MCAlgos
  IterMaxs <- MCIterMaxs
  HookBug = FALSE
INVARIANTS TypeOK CommitTested TwoIterationsWithoutPrediction NoHookAfterConvergence HookBeforeNextIteration IterBound
PROPERTY Terminates

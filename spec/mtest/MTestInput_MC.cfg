SPECIFICATION Spec
INVARIANT Budget
INVARIANT ValidIsSkeleton
INVARIANT MistakesChangeTheFile
INVARIANT CutEnds

SPECIFICATION FairSpec
CONSTANTS
  Confs <- SysConfs
  Factors <- SysFactors
  ClampFixed = TRUE
  Algos <- SysAlgos
  IterMaxs <- SysIterMaxs
INVARIANTS AcceptedOnlyIfTested FreshAttempt SolverInvariants NewtonInvariants
PROPERTY Terminates

SPECIFICATION FairSpec
CONSTANTS
  Confs <- DynamicConfs
  Factors <- MCFactors
  ClampFixed = FALSE
INVARIANTS TypeOK MaxStepRespected ExactEnd NoOvershoot Contiguous CleanAttempt RowsOrdered AllRequested
PROPERTY Terminates

SPECIFICATION TraceSpec
CONSTANTS
  Confs = {}
  Factors = {}
  ClampFixed = TRUE
  CheckDigests = TRUE
  CheckLoadings = TRUE
INVARIANTS MaxStepRespected ExactEnd NoOvershoot Contiguous CleanAttempt RowsOrdered AllRequested
CONSTRAINT TrackMaxL
POSTCONDITION ReportMaxL
CHECK_DEADLOCK FALSE

SPECIFICATION GenSpec
CONSTANTS
  Confs <- ThoroughConfs
  Factors <- GenFactors
  ClampFixed = TRUE
  MaxFail = 4
CONSTRAINT Bounded
INVARIANT Emit
CHECK_DEADLOCK FALSE

SPECIFICATION GenSpec
CONSTANTS
  Confs <- ThoroughConfs
  Factors <- GenFactors
  ClampFixed = TRUE
  MaxFail = 5
CONSTRAINT Bounded
INVARIANT Emit
CHECK_DEADLOCK FALSE

SPECIFICATION Spec
CONSTANTS
  Confs <- SysConfs
  Factors <- SysFactors
  ClampFixed = TRUE
  Algos <- SysAlgos
  IterMaxs <- SysIterMaxs
  OutcomesOf <- AnyOutcome
INVARIANTS AcceptedOnlyIfTested FreshAttempt SolverInvariants NewtonInvariants

----------------------------- MODULE MTestSystem -----------------------------
(* MTest as a whole: the time loop of MTestSolver.tla (MTest::execute / GenericSolver::execute: intervals, attempts,
   update / revert, time step reduction) composed with the Newton loop of MTestNewton.tla (GenericSolver's
   iterate(): prediction, iterations, convergence test, acceleration hook).  One attempt of the time loop IS one
   run of the Newton machine:

        time loop  "attempt"  --StartAttempt-->  Newton machine runs (Start, Iterate, Decide, Hook, Post)
                                                   |  done                      |  fail
                                   EndAttempt: outcome ok (or rejected          EndAttempt: outcome fail
                                   by the behaviour's time step factor)
        time loop  "decide"   --Update / Revert-->  ...

   The specifications of the two levels are used as they are (INSTANCE); this module adds the glue and the
   properties that only make sense for the whole:
     AcceptedOnlyIfTested   a time step is accepted (its state committed) only when the Newton machine ended on an
                            iterate produced by a plain correction whose criteria were met - whatever the options
     FreshAttempt           the Newton machine of an attempt starts from the committed iterate: a rejected attempt
                            leaves no trace in the next one (C50 seen from the solver)
     every invariant of the two levels. *)
EXTENDS Integers, Sequences, FiniteSets, TLC
CONSTANTS Confs, Factors, ClampFixed,      \* MTestSolver
          Algos, IterMaxs                  \* MTestNewton
VARIABLES cf, k, t, dt, sub, spc, out, work, sacc, rows,      \* time loop (spc = its pc, sacc = its accepted steps)
          ncfg, npc, iter, who, met, hooks,                   \* Newton machine of the current attempt
          last                                                \* how the last Newton run ended: [accepted, who, met]
svars == <<cf, k, t, dt, sub, spc, out, work, sacc, rows>>
nvars == <<ncfg, npc, iter, who, met, hooks>>
vars == <<svars, nvars, last>>

S == INSTANCE MTestSolver WITH pc <- spc, acc <- sacc
N == INSTANCE MTestNewton WITH cfg <- ncfg, pc <- npc, HookBug <- FALSE

NoRun == [accepted |-> FALSE, who |-> "committed", met |-> FALSE]
Init == S!Init /\ N!Init /\ last = NoRun

\* the time loop works while no attempt is running
Idle == npc = "start"
SolverStep == /\ Idle /\ (S!Begin \/ S!Update \/ S!Revert \/ S!Output) /\ UNCHANGED <<nvars, last>>
\* an attempt begins: the Newton machine starts from the committed iterate
StartAttempt == /\ spc = "attempt" /\ Idle
                /\ \E d \in BOOLEAN : N!Start(d)
                /\ UNCHANGED <<svars, last>>
NewtonStep == /\ spc = "attempt" /\ npc \in {"iterate", "tested", "hook", "post"}
              /\ ((\E ok, m \in BOOLEAN : N!Iterate(ok, m)) \/ N!Decide \/ (\E mod \in BOOLEAN : N!Hook(mod)) \/ N!Post)
              /\ UNCHANGED <<svars, last>>
\* the attempt ends: its outcome for the time loop, and the Newton machine is ready for the next one
OutcomesOf(p) == IF p = "done" THEN {o \in S!Outcomes : o[1] # "fail"}         \* converged; the behaviour may still ask for a smaller step
                 ELSE {o \in S!Outcomes : o[1] # "ok"}                          \* integration failure or no convergence
EndAttempt == /\ spc = "attempt" /\ npc \in {"done", "fail"}
              /\ \E o \in OutcomesOf(npc) : S!Attempt(o)
              /\ last' = [accepted |-> npc = "done", who |-> who, met |-> met]
              /\ npc' = "start" /\ iter' = 0 /\ who' = "committed" /\ met' = FALSE /\ hooks' = {}
              /\ UNCHANGED ncfg
Finished == spc \in {"done", "throw"} /\ UNCHANGED vars

Next == SolverStep \/ StartAttempt \/ NewtonStep \/ EndAttempt \/ Finished
Spec == Init /\ [][Next]_vars
FairSpec == Spec /\ WF_vars(Next)

\* ---- properties of the whole ---------------------------------------------------------------------------------
AcceptedOnlyIfTested == (spc = "decide" /\ S!Converged(out)) => (last.accepted /\ last.who = "newton" /\ last.met)
FreshAttempt == (spc = "attempt" /\ npc = "iterate" /\ iter = 0) => (who \in {"committed", "pred"} /\ work = "clean")
SolverInvariants == S!ExactEnd /\ S!NoOvershoot /\ S!Contiguous /\ S!CleanAttempt /\ S!RowsOrdered /\ S!AllRequested /\ S!MaxStepRespected
NewtonInvariants == N!CommitTested /\ N!TwoIterationsWithoutPrediction /\ N!NoHookAfterConvergence /\ N!HookBeforeNextIteration /\ N!IterBound
Terminates == <>(spc \in {"done", "throw"})
=============================================================================

------------------------------ MODULE MTestInputMC ------------------------------
(* Model checking of the language machine of MTestInput at small parameters: the second mtest
   skeleton (11 statements), one mistake of each family (thorough tier, MCBIG=1: the pipe skeleton
   too), a dictionary of a few keywords, a budget of two mistakes per file.
   Invariants: the budget is respected; a finished file without mistake is the skeleton (hence well
   formed, statement by statement); every mistake recorded changed the file; a cut ends the file. *)
EXTENDS MTestInput, IOUtils
VARIABLE st
MCDsls == IF IOEnv.MCBIG = "1" THEN {2, 3} ELSE {2}
MCKinds == {"drop_semi", "drop_close", "open_str", "trunc_kw", "num_huge", "str_to_num",
            "bad_opt", "open_comment", "nul", "dup", "del", "eof_mid"}
P == [dsls |-> MCDsls, dict |-> [d \in 1..NSkel |-> {"@Real", "@Times"}],
      all |-> {"@Real", "@Times", "@InnerRadius"}, insdsls |-> MCDsls, fordsls |-> MCDsls,
      kinds |-> MCKinds, shapes |-> {"qstr", "nummap"}, fshapes |-> {"eof"}, foreign |-> {"@Profile"},
      maxmut |-> 2, nodsl |-> FALSE]
Init == st = InitState
Step == st' \in Succ(st, P)
Finished == st.done /\ UNCHANGED st
Next == Step \/ Finished
Spec == Init /\ [][Next]_st

Budget == Len(st.muts) <= P.maxmut
ValidIsSkeleton == (st.done /\ Valid(st)) => (st.out = SkeletonFile(st.dsl) /\ \A i \in 1..Len(st.out) : WellFormed(st.out[i]))
MistakesChangeTheFile == (st.done /\ ~Valid(st)) => st.out # SkeletonFile(st.dsl)
CutEnds == st.cut => Len(st.muts) > 0
\* vacuity witness, expected to be violated when checked as an invariant
NeverTwoMistakes == ~(st.done /\ Len(st.muts) = 2)
=============================================================================

-------------------------- MODULE MTestOptionsJudge --------------------------
(* JUDGE of C49: one observation per configuration run by the real mtest
     [id, kind "linear" | "nonlinear", fault "none" | "F" | "N", pol, isref,
      conv      1 iff mtest completed and wrote a row for every requested time,
      nsteps    number of requested time steps,   attempts / iters  number of attempts (first iterations) and of
                iterations read in the @ResidualFile,
      same      linear problems: 1 iff every value of every row equals the reference's (-0 = 0); the reference of a run with
                an injected failure is the run of the reference options with the same failure and sub-stepping options, i.e.
                with the same accepted time steps (the law of the probe depends on the time discretisation),
      devE/devS largest deviation from the reference run over the strain-like / stress columns, in units
                of @StrainEpsilon / @StressEpsilon, rounded up and capped at 1000000,
      twinks / twinsub  1 iff the rows are identical to those of the same configuration without @StiffnessUpdatePolicy / with the
                default sub-stepping options, 0 if they differ, -1 when not applicable (no twin, Random rounding, faulted run),
      smax      reference of a nonlinear problem: largest stress component of the run, rounded up]                         *)
EXTENDS MTestOptions, Judge
Linear(o) ==
  IF o.conv # 1 THEN {"no-result"}
  ELSE IF o.fault = "none"
       THEN (IF o.same # 1 THEN {"rows-differ"} ELSE {})
            \cup (IF o.attempts # o.nsteps THEN {"unexpected-sub-stepping"}
                  \* Newton converges in one iteration on a linear problem, whatever the options: one more iteration is needed
                  \* without prediction (the first iteration is never accepted), at most one more with a prediction
                  ELSE IF o.pol = "NoPrediction" /\ o.iters # 2 * o.nsteps THEN {"iterations"}
                  ELSE IF o.iters < o.nsteps \/ o.iters > 2 * o.nsteps THEN {"iterations"} ELSE {})
       \* sub-stepped runs: the values are no longer dyadic (the arithmetic is not exact): identical, or within the tolerance
       \* of a problem solved with its exact operator (Kappa = 1 <= KappaMax), over the accepted steps
       ELSE (IF o.attempts <= o.nsteps THEN {"fault-not-injected"} ELSE {})
            \cup (IF o.same # 1 /\ (o.devE > StrainTol(o.attempts) \/ o.devS > StressTol(o.attempts)) THEN {"rows-differ"} ELSE {})
NonLinear(o) ==
  IF o.conv # 1 THEN {"no-result"}
  ELSE IF o.attempts # o.nsteps THEN {"no-convergence"}      \* sub-stepping: another time discretisation, nothing to compare
  ELSE (IF o.devE > StrainTol(o.nsteps) THEN {"deviation-strain"} ELSE {})
       \cup (IF o.devS > StressTol(o.nsteps) THEN {"deviation-stress"} ELSE {})
       \cup (IF o.isref = 1 /\ o.smax > MaxStressForKappa THEN {"ill-conditioned-reference"} ELSE {})
       \cup (IF o.isref = 1 /\ o.iters < 2 * o.nsteps THEN {"reference-too-easy"} ELSE {})
Fails(o) == (IF o.kind = "linear" THEN Linear(o) ELSE NonLinear(o))
            \cup (IF o.twinks = 0 THEN {"update-policy-has-an-effect"} ELSE {})
            \cup (IF o.twinsub = 0 THEN {"sub-stepping-options-have-an-effect"} ELSE {})
ASSUME JudgeAll(Fails)
=============================================================================

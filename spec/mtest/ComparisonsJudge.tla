---------------------------- MODULE ComparisonsJudge ----------------------------
(* observation = the case + success (1 iff tfel-check printed [SUCCESS] for that comparison) *)
EXTENDS Comparisons, Judge
Fails(o) == (IF Sound(o.type, o.rows, o.p, o.p2, o.success = 1) THEN {}
             ELSE {"unsound-success:" \o o.type \o (IF \A i \in 1..Len(o.rows) : Finite(o.rows[i][1]) /\ Finite(o.rows[i][2])
                                                   THEN ":out-of-tolerance" ELSE ":non-finite")})
            \cup (IF SelfCompare(o.rows) /\ o.success = 0 THEN {"self-comparison-fails:" \o o.type} ELSE {})
ASSUME JudgeAll(Fails)
=============================================================================

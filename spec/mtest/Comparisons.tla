------------------------------- MODULE Comparisons -------------------------------
(* C51 - verdict soundness of the tfel-check comparisons (tfel-check/src/*Comparison.cxx).
   A value is either a token NaN = 1000 | PInf = 1001 | NInf = 1002 or an integer A (|A| < 1000) standing for the real A/2; precisions are
   integers P standing for P/4.  Everything is dyadic, so the implementation's floating-point arithmetic on these
   inputs is exact and the decision rules can be stated on integers:
     Absolute            |a - b| <= p                       2 |A-B| <= P
     Relative            |a - b| <= p min(|a|, |b|)         4 |A-B| <= P min(|A|,|B|)
     RelativeAndAbsolute relative with p  or  absolute with p2
     Mixed               |a - b| <= p |b| + p2              4 |A-B| <= P |B| + 2 P2      (b = reference = second file)
   C51: a comparison may report success ONLY IF every compared pair is finite and within tolerance; comparing a
   finite column with itself succeeds. *)
EXTENDS Integers, Sequences
NaN == 1000
PInf == 1001
NInf == 1002
Finite(v) == v < 1000
AbsI(x) == IF x < 0 THEN -x ELSE x
MinI(x, y) == IF x < y THEN x ELSE y
Within(type, a, b, p, p2) ==
  /\ Finite(a) /\ Finite(b)
  /\ CASE type = "Absolute" -> 2 * AbsI(a - b) <= p
       [] type = "Relative" -> 4 * AbsI(a - b) <= p * MinI(AbsI(a), AbsI(b))
       [] type = "RelativeAndAbsolute" -> (4 * AbsI(a - b) <= p * MinI(AbsI(a), AbsI(b))) \/ (2 * AbsI(a - b) <= p2)
       [] type = "Mixed" -> 4 * AbsI(a - b) <= p * AbsI(b) + 2 * p2
AllWithin(type, rows, p, p2) == \A i \in 1..Len(rows) : Within(type, rows[i][1], rows[i][2], p, p2)
\* soundness: success => all within
Sound(type, rows, p, p2, success) == success => AllWithin(type, rows, p, p2)
SelfCompare(rows) == \A i \in 1..Len(rows) : rows[i][1] = rows[i][2] /\ Finite(rows[i][1])
\* a .check file holds several comparisons (each possibly under its own @TestType / @Precision): the verdict of the file - the
\* line "end of test ... [SUCCESS]" and, through it, the exit status of tfel-check - may be a success only if every one of its
\* comparisons may; a file of self comparisons succeeds
FileSound(cs, success) == success => \A i \in 1..Len(cs) : AllWithin(cs[i].type, cs[i].rows, cs[i].p, cs[i].p2)
FileSelf(cs) == \A i \in 1..Len(cs) : SelfCompare(cs[i].rows)
Values == {-4, -2, -1, 0, 1, 2, 4, NaN, PInf, NInf}
Precs == {0, 1, 2, 4, 8}
Precs2 == {0, 2, 8}
=============================================================================

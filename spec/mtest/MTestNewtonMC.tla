---------------------------- MODULE MTestNewtonMC ----------------------------
\* constants of the model-checking configurations of MTestNewton
EXTENDS MTestNewton
\* every registered algorithm with its default trigger / period, with its smallest trigger, with period 1, and none
MCAlgos == {NoAccel} \cup Registered
           \cup {[a EXCEPT !.trig = a.mintrig] : a \in {x \in Registered : x.mintrig > 0}}
           \cup {[a EXCEPT !.per = 1] : a \in {x \in Registered : x.pper}}
MCIterMaxs == {1, 2, 4}
=============================================================================

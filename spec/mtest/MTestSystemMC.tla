---------------------------- MODULE MTestSystemMC ----------------------------
\* constants of the model-checking configurations of MTestSystem
EXTENDS MTestSystem
Unset == -16
SysConfs == {[times |-> <<0, 8, 24>>, maxsub |-> 2, dyn |-> FALSE, mindt |-> Unset, maxdt |-> 0],
             [times |-> <<0, 64>>, maxsub |-> 3, dyn |-> TRUE, mindt |-> 2, maxdt |-> 0]}
SysFactors == {<<1, 4>>}      \* with halving on failures every time step of these configurations stays an integer
\* no acceleration, the default Cast3M algorithm (acts at iterations 4, 6, ...) and an algorithm acting at every iteration from the 2nd
SysAlgos == {N!NoAccel} \cup {a \in N!Registered : a.name \in {"Cast3M", "AlternateSecant"}}
SysIterMaxs == {2, 5}
\* mutant: the time loop accepts a step whatever the way the Newton machine ended (non-vacuity of AcceptedOnlyIfTested)
AnyOutcome(p) == S!Outcomes
=============================================================================

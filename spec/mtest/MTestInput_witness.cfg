SPECIFICATION Spec
INVARIANT NeverTwoMistakes

---------------------------- MODULE PipeLameJudge ----------------------------
(* JUDGE of C53: one observation per family [id, load, etype, inspace, res], res[i] = the run with N = res[i].n elements:
     conv   1 iff PipeTest completed and wrote the final row and a complete profile
     uri, ure, ezz, srr, stt, szz, fint, force : accuracy in quarter-bits, floor(-4 log2(|observed - exact| / scale)),
            200 when the error is zero; srr / stt / szz = worst Gauss point of the @Profile; fint = integral of szz over the
            section against the exact axial force; force = the axial force reported under ImposedAxialGrowth (-1 otherwise)
     gpok   1 iff the Gauss points of the profile lie strictly inside the wall, in increasing order *)
EXTENDS PipeLame, Judge
Q(bits) == 4 * bits
Disp == {"uri", "ure"}
Stresses == {"srr", "stt", "szz"}
Val(r, q) == CASE q = "uri" -> r.uri [] q = "ure" -> r.ure [] q = "ezz" -> r.ezz [] q = "srr" -> r.srr
               [] q = "stt" -> r.stt [] q = "szz" -> r.szz [] q = "force" -> r.force [] q = "fint" -> r.fint
Growth(o) == o.load.axial = "ImposedAxialGrowth"
\* quantities subject to the discretisation error, with their order of convergence
DispLike(o) == Disp \cup (IF Growth(o) THEN {} ELSE {"ezz"})
StressLike(o) == Stresses \cup (IF Growth(o) THEN {"force"} ELSE {})
Bound(o, q, n) == IF q \in DispLike(o) THEN DispBits(o.load, o.etype, n) ELSE StressBits(o.load, o.etype, n)
Order(o, q) == IF q \in DispLike(o) THEN 2 * Degree(o.etype) ELSE Degree(o.etype)
Run(o, r) ==
  IF r.conv # 1 THEN {"no-result"}
  ELSE (IF r.gpok # 1 THEN {"gauss-points-outside-the-wall"} ELSE {})
       \* equilibrium of the section: the integral of szz is the axial force of the axial condition, whatever the mesh
       \cup (IF r.fint < Q(Floor) THEN {"axial-force-balance"} ELSE {})
       \* ImposedAxialGrowth gives the prescribed axial strain
       \cup (IF Growth(o) /\ r.ezz < Q(Floor) THEN {"axial-growth-not-imposed"} ELSE {})
       \cup (IF o.inspace = 1
             THEN {"not-exact-in-element-space-" \o q : q \in {x \in DispLike(o) \cup StressLike(o) : Val(r, x) < Q(Floor)}}
             ELSE IF K(o.load, r.n) >= 1
             THEN {"bound-" \o q : q \in {x \in DispLike(o) \cup StressLike(o) : Val(r, x) < Q(Bound(o, x, r.n))}}
             ELSE {})
\* doubling N gains Order bits (a bit and a half of slack), until the floor is reached; a stress that is much more accurate
\* than its bound (by more than SuperBits: compensations on coarse meshes, stt = E u / r when nu = 0) need not improve regularly
SuperBits == 4
Rate(o, i) == LET r == o.res[i]  s == o.res[i + 1]
              IN  IF o.inspace = 1 \/ r.conv # 1 \/ s.conv # 1 \/ s.n # 2 * r.n \/ K(o.load, r.n) < 1 THEN {}
                  ELSE {"rate-" \o q : q \in {x \in DispLike(o) \cup StressLike(o) :
                                                /\ Val(s, x) < MinBits(Val(r, x) + Q(Order(o, x)) - 6, Q(Floor))
                                                /\ (x \in StressLike(o) => Val(s, x) < Q(Bound(o, x, s.n) + SuperBits))}}
Fails(o) == UNION {Run(o, o.res[i]) : i \in 1..Len(o.res)} \cup UNION {Rate(o, i) : i \in 1..(Len(o.res) - 1)}
ASSUME JudgeAll(Fails)
=============================================================================

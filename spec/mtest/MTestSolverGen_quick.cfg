SPECIFICATION GenSpec
CONSTANTS
  Confs <- QuickConfs
  Factors <- GenFactors
  ClampFixed = TRUE
  MaxFail = 3
CONSTRAINT Bounded
INVARIANT Emit
CHECK_DEADLOCK FALSE

----------------------------- MODULE PipeLameGen -----------------------------
(* GEN of C53: the families of pipe problems (geometry, pressures, Poisson ratio, axial condition, element type); each is
   solved by the real PipeTest for every number of elements of Ns.  The exact solution is attached as rationals <<n, d>>. *)
EXTENDS PipeLame, TLC, Json, IOUtils, SequencesExt
Tier == IF "TIER" \in DOMAIN IOEnv THEN IOEnv.TIER ELSE "quick"
Thorough == Tier = "thorough"
Geometries == IF Thorough THEN {<<ri, t>> : ri \in {1, 2, 4, 8}, t \in {1, 2, 4}}
              ELSE {<<1, 1>>, <<2, 1>>, <<1, 2>>, <<4, 1>>, <<1, 4>>}
Pressures == IF Thorough THEN {<<4, 0>>, <<0, 4>>, <<4, 1>>, <<1, 4>>, <<2, 2>>, <<0, 1>>} ELSE {<<4, 0>>, <<1, 4>>, <<2, 2>>}
Nus == {<<0, 1>>, <<1, 4>>}
Axials == {<<"None", <<0, 1>>>>, <<"EndCapEffect", <<0, 1>>>>, <<"ImposedAxialForce", <<5, 1>>>>,
           <<"ImposedAxialGrowth", <<1, 32>>>>, <<"ImposedAxialGrowth", <<0, 1>>>>}
          \cup (IF Thorough THEN {<<"ImposedAxialForce", <<-3, 1>>>>, <<"ImposedAxialGrowth", <<-1, 64>>>>} ELSE {})
Elements == {"Linear", "Quadratic", "Cubic"}
Ns == IF Thorough THEN <<1, 2, 4, 8, 16, 32>> ELSE <<1, 2, 4, 8>>
Load(g, p, nu, ax) == [ri |-> g[1], t |-> g[2], pi |-> p[1], pe |-> p[2], nu |-> nu, axial |-> ax[1], par |-> ax[2]]
Family(c, e) == [load |-> c, etype |-> e, ns |-> Ns, re |-> Re(c),
                 A |-> CoefA(c), B |-> CoefB(c), C |-> CoefC(c), a |-> Coefa(c), b |-> Coefb(c), ezz |-> Ezz(c),
                 uri |-> U(c, c.ri), ure |-> U(c, Re(c)), fpi |-> ForceOverPi(c), ss |-> Ss(c), us |-> Us(c),
                 inspace |-> IF InSpace(c) THEN 1 ELSE 0]
CaseSet == {Family(Load(g, p, nu, ax), e) : g \in Geometries, p \in Pressures, nu \in Nus, ax \in Axials, e \in Elements}
CaseSeq == SetToSeq(CaseSet)
Cases == [i \in 1..Len(CaseSeq) |-> [id |-> i] @@ CaseSeq[i]]
ASSUME ndJsonSerialize(IOEnv.OUT, Cases)
ASSUME PrintT(<<"GEN", Len(CaseSeq)>>)
=============================================================================

--------------------------- MODULE ComparisonFilesGen ---------------------------
(* C51, verdict of a whole .check file: every sequence of 2 or 3 comparisons drawn from one passing and one failing
   comparison of each type; `same` = 1: the comparisons of the same type that follow each other share one @TestType
   declaration (tfel-check then reuses one comparison object), 0: every comparison has its own declaration *)
EXTENDS Comparisons, TLC, Json, IOUtils, SequencesExt, FiniteSets
Types == {"Absolute", "Relative", "RelativeAndAbsolute", "Mixed"}
Pass(t) == [type |-> t, p |-> 1, p2 |-> 0, rows |-> <<<<2, 2>>, <<-1, -1>>>>]
Fail(t) == [type |-> t, p |-> 1, p2 |-> 0, rows |-> <<<<2, 2>>, <<4, -4>>>>]
Cmps == {Pass(t) : t \in Types} \cup {Fail(t) : t \in Types}
Seqs == {<<a, b>> : a \in Cmps, b \in Cmps} \cup {<<a, b, c>> : a \in Cmps, b \in Cmps, c \in Cmps}
Files == {[cmps |-> q, same |-> m] : q \in Seqs, m \in {0, 1}}
Number(S) == LET s == SetToSeq(S) IN [i \in 1..Len(s) |-> [id |-> i] @@ s[i]]
ASSUME \A t \in Types : AllWithin(t, Pass(t).rows, 1, 0) /\ ~AllWithin(t, Fail(t).rows, 1, 0)
ASSUME ndJsonSerialize(IOEnv.OUT, Number(Files))
ASSUME PrintT(<<"GEN", Cardinality(Files)>>)
=============================================================================

----------------------------- MODULE MTestOptions -----------------------------
(* C49 - the space of the solver options of MTest and the rule that says when two results are "the same
   within the convergence tolerances".

   Options (mtest/src/SchemeParserBase.cxx, SchemeBase.cxx, MTestMain.cxx):
     @AccelerationAlgorithm '<name>'            every name registered by AccelerationAlgorithmFactory.cxx
     @AccelerationAlgorithmParameter '<p>' '<v>' AccelerationTrigger / AccelerationPeriod / MethodOrder
     @UseCastemAccelerationAlgorithm true       the historical way of selecting 'Cast3M'
     @PredictionPolicy '<policy>'               NoPrediction (default), LinearPrediction, ElasticPrediction,
                                                SecantOperatorPrediction, TangentOperatorPrediction
                                                (ElasticPredictionFromMaterialProperties is for the umat interface only,
                                                 docs/mtest/PredictionPolicy.md)
     @StiffnessMatrixType '<type>'              Elastic, SecantOperator, TangentOperator, ConsistentTangentOperator
     @StiffnessUpdatePolicy '<policy>'          ConstantStiffness, SecantOperator, TangentOperator ("not yet implemented",
                                                docs/mtest/StiffnessUpdatePolicy.md: it must have no effect at all)
     --rounding-direction-mode=<mode>           ToNearest (default), UpWard, DownWard, TowardZero, Random (RoundingMode.cxx)
     @MaximumNumberOfSubSteps n, @DynamicTimeStepScaling true|false

   An acceleration algorithm is described by the iterations at which it may replace the iterate (read in the
   sources, mtest/src/<Name>AccelerationAlgorithm.cxx):  it acts at iteration i iff
        i >= trig  and  (i - trig) % per = 0
   trig  : default value of its trigger, mintrig : smallest value 'AccelerationTrigger' accepts (0: no such parameter)
   per   : default period (1 = every iteration), pper = TRUE iff 'AccelerationPeriod' exists
   The Anderson algorithms act from the second iteration on, every 'AccelerationPeriod' (alMax, default 2) iterations. *)
EXTENDS Integers, Sequences, FiniteSets
Algo(n, t, mt, p, pp, ord) == [name |-> n, trig |-> t, mintrig |-> mt, per |-> p, pper |-> pp, order |-> ord]
NoAccel == Algo("none", 0, 0, 1, FALSE, FALSE)
Registered == { Algo("Cast3M", 4, 3, 2, TRUE, FALSE),
                Algo("Secant", 3, 3, 1, FALSE, FALSE),
                Algo("AlternateSecant", 2, 2, 1, FALSE, FALSE),
                Algo("AlternateDelta2", 3, 2, 1, FALSE, FALSE),
                Algo("Alternate2Delta", 2, 2, 1, FALSE, FALSE),
                Algo("CrossedSecant", 2, 2, 1, FALSE, FALSE),
                Algo("CrossedDelta2", 3, 2, 1, FALSE, FALSE),
                Algo("Crossed2Delta", 2, 2, 1, FALSE, FALSE),
                Algo("Crossed2Deltabis", 2, 2, 1, FALSE, FALSE),
                Algo("Steffensen", 3, 3, 2, FALSE, FALSE),
                Algo("IronsTuck", 2, 2, 2, FALSE, FALSE),
                Algo("UAnderson", 2, 0, 2, TRUE, TRUE),
                Algo("FAnderson", 2, 0, 2, TRUE, TRUE) }
RegisteredNames == {a.name : a \in Registered}
\* may algorithm a (with its current trigger and period) replace the iterate after iteration i ?
Acts(a, i) == a.name # "none" /\ i >= a.trig /\ (i - a.trig) % a.per = 0

Policies == {"NoPrediction", "LinearPrediction", "ElasticPrediction", "SecantOperatorPrediction", "TangentOperatorPrediction"}
\* policies whose prediction is a resolution with an operator of the behaviour
OperatorPolicies == {"ElasticPrediction", "SecantOperatorPrediction", "TangentOperatorPrediction"}
StiffnessTypes == {"default", "Elastic", "SecantOperator", "TangentOperator", "ConsistentTangentOperator"}
UpdatePolicies == {"default", "ConstantStiffness", "SecantOperator", "TangentOperator"}
RoundingModes == {"ToNearest", "UpWard", "DownWard", "TowardZero", "Random"}
\* sub-stepping options: <<@MaximumNumberOfSubSteps (0 = keyword absent: 10), @DynamicTimeStepScaling>>
SubSteppings == {<<0, FALSE>>, <<1, FALSE>>, <<3, FALSE>>, <<10, TRUE>>, <<3, TRUE>>}

\* ---- the reference configuration: plain Newton with the consistent tangent operator -------------------------
RefAccel == [name |-> "none", how |-> "none", params |-> <<>>]
Reference == [acc |-> RefAccel, pol |-> "NoPrediction", kt |-> "ConsistentTangentOperator", ks |-> "default",
              rdm |-> "ToNearest", sub |-> <<0, FALSE>>]

\* ---- the ways of asking for an algorithm: keyword + parameters -----------------------------------------------
\* params: sequence of <<name, value>> written with @AccelerationAlgorithmParameter; how = "keyword" |
\* "castem" (@UseCastemAccelerationAlgorithm true + @CastemAccelerationTrigger / @CastemAccelerationPeriod)
Default(a) == [name |-> a.name, how |-> "keyword", params |-> <<>>]
Variants(a) ==
  {Default(a)}
  \cup (IF a.mintrig > 0 THEN {[name |-> a.name, how |-> "keyword", params |-> <<<<"AccelerationTrigger", v>>>>] :
                                    v \in {a.mintrig, a.mintrig + 2}} ELSE {})
  \cup (IF a.pper THEN {[name |-> a.name, how |-> "keyword", params |-> <<<<"AccelerationPeriod", v>>>>] : v \in {1, 3}} ELSE {})
  \cup (IF a.order THEN {[name |-> a.name, how |-> "keyword", params |-> <<<<"MethodOrder", v>>>>] : v \in {1, 2}} ELSE {})
  \cup (IF a.name = "Cast3M" THEN {[name |-> "Cast3M", how |-> "castem", params |-> <<>>],
                                   [name |-> "Cast3M", how |-> "castem", params |-> <<<<"AccelerationTrigger", 3>>, <<"AccelerationPeriod", 1>>>>]}
        ELSE {})
DefaultAccels == {RefAccel} \cup {Default(a) : a \in Registered}
AllAccels == {RefAccel} \cup UNION {Variants(a) : a \in Registered}
\* the algorithm record (trigger, period) that a request denotes
ParamOr(req, p, d) == IF \E i \in 1..Len(req.params) : req.params[i][1] = p
                      THEN (CHOOSE v \in 0..100 : \E i \in 1..Len(req.params) : req.params[i] = <<p, v>>) ELSE d
Denotes(req) == IF req.name = "none" THEN NoAccel
                ELSE LET a == CHOOSE x \in Registered : x.name = req.name
                     IN [a EXCEPT !.trig = ParamOr(req, "AccelerationTrigger", a.trig),
                                  !.per = ParamOr(req, "AccelerationPeriod", a.per)]

\* ---- when are two converged results the same ? -----------------------------------------------------------------
(* At convergence of a time step MTest has ||du||_inf <= eeps (@StrainEpsilon) for the last quasi-Newton correction
   du = K^-1 r, ||r||_inf <= seps (@StressEpsilon) for the residual it was computed from, and every imposed component
   within eeps / seps of its value (MTest::checkConvergence).  With J the exact Jacobian of the discrete problem and
   K the operator used (elastic, secant, tangent, consistent), the distance of the committed iterate to the exact
   discrete solution is at most  ||I - K^-1 J|| ||J^-1 K|| eeps <= Kappa eeps  with  Kappa = cond(K^-1 J): one for the
   consistent operator, at most Kappa for the elastic one.  Two configurations may thus differ by 2 Kappa eeps after
   one step, and - the time-discrete evolution being non-expansive - by 2 n Kappa eeps after n steps on the strain-like
   columns, and by the same number of units of seps, plus n, on the stress columns when seps = Young eeps.
   The problems of the C49 check are built so that Kappa <= KappaMax:
     plasticity   K_el^-1 J >= H / (E + H) (linear isotropic hardening H = E / 8):  Kappa <= 9
     Norton creep K_el^-1 J >= 1 / (1 + E dt n A s^(n-1)):  Kappa <= 1 + 3/32 s^2 <= 7 as long as the von Mises stress s <= 8
   (the driver reports the largest stress of the reference run, the judge checks the assumption). *)
KappaMax == 9
StrainTol(nsteps) == 2 * nsteps * KappaMax          \* in units of @StrainEpsilon
StressTol(nsteps) == 2 * nsteps * KappaMax + nsteps \* in units of @StressEpsilon = Young x @StrainEpsilon
MaxStressForKappa == 8
=============================================================================

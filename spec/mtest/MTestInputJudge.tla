--------------------------- MODULE MTestInputJudge ---------------------------
(* JUDGE for C54: one observation per run of mtest (scheme chosen by the extension of the file or
   by --scheme) on a generated file.  Fields: tool, kw, mut (the mistake that produced the file:
   the signature of a violation is tool:kw:mut, never the file), expect ("ok" for the files of the
   language without mistake, "any" otherwise) and the abstraction of the run (see Outcome in
   InputLanguage).

   Obligations (statement of C54): mtest terminates in bounded time (NoTimeout); it runs the test
   or reports a parsing or execution error with a non zero status (ReportsError: a non zero status
   comes with a message; error reporting through std::terminate's verbose handler is how mtest
   reports errors when built with libstdc++); it never dies from a signal (NoSignal), never aborts
   otherwise (NoAbort), never triggers a sanitizer report (NoSanitizerReport).  Binding obligation:
   the files of the modelled language without mistake run successfully (ValidAccepted). *)
EXTENDS InputLanguage, Judge

Fails(o) ==
  LET oc == Outcome(o) IN
     (IF oc = "timeout" THEN {"NoTimeout"} ELSE {})
     \cup (IF oc = "signal" THEN {"NoSignal"} ELSE {})
     \cup (IF oc = "abort" THEN {"NoAbort"} ELSE {})
     \cup (IF oc = "sanitizer" THEN {"NoSanitizerReport"} ELSE {})
     \cup (IF oc = "silent_error" THEN {"ReportsError"} ELSE {})
     \cup (IF oc = "error_with_status_0" THEN {"ErrorHasNonZeroStatus"} ELSE {})
     \cup (IF o.expect = "ok" /\ oc # "ok" THEN {"ValidAccepted"} ELSE {})

ASSUME \A i \in 1..Len(Obs) : Outcome(Obs[i]) \in Admissible \/ Fails(Obs[i]) # {}
ASSUME JudgeAll(Fails)
ASSUME PrintT(<<"OUTCOMES", [c \in Admissible \cup {"timeout", "signal", "abort", "sanitizer", "silent_error", "error_with_status_0"} |->
                              Cardinality({i \in 1..Len(Obs) : Outcome(Obs[i]) = c})]>>)
=============================================================================

------------------------------- MODULE PipeLame -------------------------------
(* C53 - the closed-form solution of an elastic isotropic thick-walled cylinder (Lame) under the loadings PipeTest
   offers, in exact rational arithmetic, and the a-priori accuracy of the 1D axisymmetric finite element solution.

   Generalised plane strain, small strain, inner radius Ri, outer radius Re, inner / outer pressures Pi / Pe, Young
   modulus E, Poisson ratio nu, uniform axial strain ezz:
       srr(r) = A - B / r^2      stt(r) = A + B / r^2      szz = C = 2 nu A + E ezz   (uniform)
       A = (Pi Ri^2 - Pe Re^2) / (Re^2 - Ri^2)             B = (Pi - Pe) Ri^2 Re^2 / (Re^2 - Ri^2)
       u(r) = a r + b / r        a = (1 - nu - 2 nu^2) A / E - nu ezz           b = (1 + nu) B / E
   The axial force is F = pi (Re^2 - Ri^2) C.  Axial conditions of PipeTest (@AxialLoading):
       None                F = 0                                     C = 0
       EndCapEffect        F = pi Ri^2 Pi - pi Re^2 Pe               C = A
       ImposedAxialForce   F = pi f (f given)                        C = f / (Re^2 - Ri^2)
       ImposedAxialGrowth  ezz = g (g given)                         C = 2 nu A + E g, and PipeTest reports F
   Everything is rational in the data: only the radii of the Gauss points are not; the driver evaluates A - B / r^2
   there in floating point from the rationals computed here.

   Discretisation: N elements of degree p (Linear 1, Quadratic 2, Cubic 3) of size h = (Re - Ri) / N, Gauss quadrature with
   p + 1 points.  The only part of the solution that is not in the finite element space is b / r, whose k-th derivative is
   bounded by k! |b| / Ri^(k+1): with delta = h / Ri the error is of the order of (|B| / Ri^2) delta^p on the stresses at
   the Gauss points, and - nodal superconvergence of one-dimensional Galerkin approximations (Douglas and Dupont) - of the
   order of (|b| / Ri) delta^(2p) on the displacements of the nodes, hence of the inner and outer radii, and on the axial
   strain, which the axial equilibrium ties to Re u(Re) - Ri u(Ri).  The lattice has Ri and Re - Ri powers of two and N a
   power of two, so that delta = 2^-K with K an integer, and accuracies are counted in bits:
       displacement at the inner / outer radius, axial strain : bits >= 2 p K - Margin
       stresses at the Gauss points, reported axial force     : bits >= p K - Margin
   relative to the scales Us (displacement), Us / Ri (strain), Ss (stress); and when N is doubled the accuracy must improve
   by 2 p, resp. p, bits (a bit and a half of slack), until it reaches the rounding floor.  When Pi = Pe the solution is
   linear in r: it belongs to the element space and must be reproduced to rounding accuracy by every element. *)
EXTENDS Integers, Sequences, Rat
Young == 64
RAbs(x) == <<AbsI(x[1]), x[2]>>
RMax(x, y) == IF RLe(x, y) THEN y ELSE x
RMax3(x, y, z) == RMax(x, RMax(y, z))
Sq(n) == n * n
\* a loading case: [ri, t, pi, pe, nu = <<n, d>>, axial, par = <<n, d>>]  (par: f for ImposedAxialForce, g for ImposedAxialGrowth)
Re(c) == c.ri + c.t
D(c) == Sq(Re(c)) - Sq(c.ri)
CoefA(c) == RNorm(c.pi * Sq(c.ri) - c.pe * Sq(Re(c)), D(c))
CoefB(c) == RNorm((c.pi - c.pe) * Sq(c.ri) * Sq(Re(c)), D(c))
Nu(c) == <<c.nu[1], c.nu[2]>>
TwoNuA(c) == RMul(RMul(RI(2), Nu(c)), CoefA(c))
CoefC(c) == CASE c.axial = "None" -> RI(0)
              [] c.axial = "EndCapEffect" -> CoefA(c)
              [] c.axial = "ImposedAxialForce" -> RDiv(<<c.par[1], c.par[2]>>, RI(D(c)))
              [] c.axial = "ImposedAxialGrowth" -> RAdd(TwoNuA(c), RMul(RI(Young), <<c.par[1], c.par[2]>>))
Ezz(c) == RDiv(RSub(CoefC(c), TwoNuA(c)), RI(Young))
\* 1 - nu - 2 nu^2
Knu(c) == RSub(RSub(RI(1), Nu(c)), RMul(RI(2), RMul(Nu(c), Nu(c))))
Coefa(c) == RSub(RDiv(RMul(Knu(c), CoefA(c)), RI(Young)), RMul(Nu(c), Ezz(c)))
Coefb(c) == RDiv(RMul(RAdd(RI(1), Nu(c)), CoefB(c)), RI(Young))
U(c, r) == RAdd(RMul(Coefa(c), RI(r)), RDiv(Coefb(c), RI(r)))
\* axial force divided by pi
ForceOverPi(c) == RMul(CoefC(c), RI(D(c)))
\* scales
Ss(c) == RMax3(RAbs(CoefA(c)), RDiv(RAbs(CoefB(c)), RI(Sq(c.ri))), RAbs(CoefC(c)))
Us(c) == RMax3(RMul(RAbs(Coefa(c)), RI(Re(c))), RDiv(RAbs(Coefb(c)), RI(c.ri)), RDiv(RMul(Ss(c), RI(Re(c))), RI(Young)))
InSpace(c) == c.pi = c.pe          \* B = 0: the solution is linear in r

\* ---- accuracy, in bits ----------------------------------------------------------------------------------------------
RECURSIVE Lg(_)
Lg(n) == IF n <= 1 THEN 0 ELSE 1 + Lg(n \div 2)        \* log2 of a power of two
Degree(e) == CASE e = "Linear" -> 1 [] e = "Quadratic" -> 2 [] e = "Cubic" -> 3
\* delta = (Re - Ri) / (N Ri) = 2^-K
K(c, n) == Lg(n) + Lg(c.ri) - Lg(c.t)
Margin == 3                       \* bits: interpolation and quasi-optimality constants (a factor 8)
Floor == 36                       \* bits: rounding floor (17 digits output, conditioning of the stiffness matrix)
MinBits(x, y) == IF x < y THEN x ELSE y
DispBits(c, e, n) == MinBits(2 * Degree(e) * K(c, n) - Margin, Floor)
StressBits(c, e, n) == MinBits(Degree(e) * K(c, n) - Margin, Floor)
=============================================================================

-------------------------- MODULE MTestSystemTrace --------------------------
(* Validation of the complete log of real mtest runs (--verbose=level2) against MTestSystem.tla: the time loop with its
   sub-stepping AND the Newton iterations of every attempt, in one trace.  The driver turns the lines into events, in order
   (several runs are concatenated):
     Run(times, maxsub, dyn, mindt, maxdt, pol, itmax)   the input file (no acceleration algorithm in these runs)
     Res(t, dt)        "resolution from a to b"                        an attempt begins (ticks)
     Iter(k, ne, nr)   "iteration k : ne nr (...)"                     as in MTestNewtonTrace
     BFail             "behaviour intregration failed"
     Conv(k)           "convergence, after k iteration(s)"
     NoConv            "No convergence, the following criteria were not met"   (printed when iter = iterMax)
     Halve             "Dividing time step by two"                     fixed time step reduction after a failed attempt
     Reduce(n, d)      "Reducing time step by a factor: n/d"           dynamic scaling
     Keep              "Increasing time step by a factor: 1"           dynamic scaling, after an accepted attempt
     End(rc)           exit status of mtest
   The steps of the time loop that print nothing (Begin, Output, the update of a fixed time step run) are silent. *)
EXTENDS MTestSystem, TraceIO
tvars == <<vars, l>>
\* the factors that the probe behaviour can propose (see VfMTProbe.mfront)
TraceFactors == {<<1, 4>>, <<3, 8>>, <<1, 8>>}
ConfOf(e) == [times |-> e.times, maxsub |-> e.maxsub, dyn |-> (e.dyn = 1), mindt |-> e.mindt, maxdt |-> e.maxdt]
NCfgOf(e) == [acc |-> N!NoAccel, pol |-> e.pol, kt |-> "default", itmax |-> e.itmax]
Reset(e) == /\ cf' = ConfOf(e) /\ k' = 1 /\ t' = e.times[1] /\ dt' = 0 /\ sub' = 0 /\ spc' = "begin" /\ out' = <<"ok">>
            /\ work' = "clean" /\ sacc' = <<>> /\ rows' = <<e.times[1]>>
            /\ ncfg' = NCfgOf(e) /\ npc' = "start" /\ iter' = 0 /\ who' = "committed" /\ met' = FALSE /\ hooks' = {}
            /\ last' = NoRun
TraceInit == /\ l = 1 /\ Tr[1].e = "Run"
             /\ cf = ConfOf(Tr[1]) /\ k = 1 /\ t = Tr[1].times[1] /\ dt = 0 /\ sub = 0 /\ spc = "begin" /\ out = <<"ok">>
             /\ work = "clean" /\ sacc = <<>> /\ rows = <<Tr[1].times[1]>>
             /\ ncfg = NCfgOf(Tr[1]) /\ npc = "start" /\ iter = 0 /\ who = "committed" /\ met = FALSE /\ hooks = {}
             /\ last = NoRun
TFirstRun == l = 1 /\ IsEvent("Run") /\ UNCHANGED vars
TRun == l > 1 /\ IsEvent("Run") /\ spc \in {"done", "throw"} /\ Reset(Ev)
\* ---- time loop ----
TBegin == Idle /\ S!Begin /\ UNCHANGED <<nvars, last, l>>
TOutput == Idle /\ S!Output /\ UNCHANGED <<nvars, last, l>>
TRes == /\ IsEvent("Res") /\ spc = "attempt" /\ Idle /\ Ev.t = t /\ Ev.dt = dt         \* the attempt the model expects
        /\ (\E d \in BOOLEAN : N!Start(d)) /\ UNCHANGED <<svars, last>>
TEndAttempt == EndAttempt /\ UNCHANGED l
\* an accepted attempt: nothing is printed by a fixed time step run, "Increasing time step by a factor" with dynamic scaling
TUpdate == /\ Idle /\ spc = "decide" /\ S!Converged(out) /\ S!Update /\ UNCHANGED <<nvars, last>>
           /\ IF cf.dyn THEN IsEvent("Keep") ELSE UNCHANGED l
\* a rejected attempt: the line printed tells how the time step is reduced
FactorOf(o) == IF cf.dyn /\ o[1] = "reject" THEN <<o[2], o[3]>> ELSE <<1, 2>>
TRevert == /\ Idle /\ spc = "decide" /\ ~S!Converged(out) /\ S!Revert /\ UNCHANGED <<nvars, last>>
           /\ IF spc' = "throw" /\ sub' = cf.maxsub THEN UNCHANGED l          \* "maximum number of sub stepping reached": no line
              ELSE IF cf.dyn THEN IsEvent("Reduce") /\ <<Ev.n, Ev.d>> = FactorOf(out)
              ELSE IsEvent("Halve")
\* ---- Newton loop of the current attempt (as in MTestNewtonTrace, without acceleration) ----
MayBeMet(e, m) == m => (e.ne # 2 /\ e.nr # 2)
Running == spc = "attempt" /\ ~Idle
TIter == /\ IsEvent("Iter") /\ Running /\ npc = "iterate" /\ Ev.k = iter + 1
         /\ (\E m \in BOOLEAN : MayBeMet(Ev, m) /\ N!Iterate(TRUE, m)) /\ UNCHANGED <<svars, last>>
TBFail == IsEvent("BFail") /\ Running /\ npc = "iterate" /\ N!Iterate(FALSE, FALSE) /\ UNCHANGED <<svars, last>>
TDecide == Running /\ N!Decide /\ UNCHANGED <<svars, last, l>>
TNoHook == Running /\ npc = "hook" /\ N!Hook(FALSE) /\ UNCHANGED <<svars, last, l>>
TConv == IsEvent("Conv") /\ Running /\ npc = "post" /\ Ev.k = iter /\ N!Post /\ UNCHANGED <<svars, last>>
TNoConv == IsEvent("NoConv") /\ Running /\ npc = "fail" /\ iter = ncfg.itmax /\ UNCHANGED vars
TEnd == IsEvent("End") /\ (IF Ev.rc = 0 THEN spc = "done" ELSE spc = "throw") /\ UNCHANGED vars
TraceNext == TFirstRun \/ TRun \/ TBegin \/ TOutput \/ TRes \/ TEndAttempt \/ TUpdate \/ TRevert
             \/ TIter \/ TBFail \/ TDecide \/ TNoHook \/ TConv \/ TNoConv \/ TEnd
TraceSpec == TraceInit /\ [][TraceNext]_tvars
=============================================================================

--------------------------- MODULE MTestOptionsGen ---------------------------
(* GEN of C49: the configurations of the solver options that are run on every problem.
   A configuration is a record [acc, pol, kt, ks, rdm, sub]; the reference is MTestOptions!Reference.
   TIER = quick   : every configuration that differs from the reference by one option (every way of asking for every
                    registered algorithm, parameters included), and every pair (algorithm, policy), (algorithm, stiffness
                    type), (policy, stiffness type), (algorithm, rounding mode in {UpWard, Random});
   TIER = thorough: the full product algorithm x policy x stiffness type x rounding mode, every parameter variant x policy x
                    stiffness type, and every pair involving the update policy or the sub-stepping options.
   Problems: kind "linear" (the probe behaviour: rows must be identical) and "nonlinear" (generated behaviours, which do not
   provide the 'TangentOperator' stiffness: that value is not generated for them).  The linear problems are also run with
   failures injected by the probe (`fault`), so that sub-stepping really happens:
     "F" the integration fails at the first attempt of the second interval, "N" the first attempt of the first interval does
     not converge (without acceleration algorithm only). *)
EXTENDS MTestOptions, TLC, Json, IOUtils, SequencesExt
Tier == IF "TIER" \in DOMAIN IOEnv THEN IOEnv.TIER ELSE "quick"
Problems == <<[name |-> "lin-3d", kind |-> "linear"], [name |-> "lin-agps", kind |-> "linear"],
              [name |-> "plast", kind |-> "nonlinear"], [name |-> "norton", kind |-> "nonlinear"]>>
Conf(a, p, k, u, r, s) == [acc |-> a, pol |-> p, kt |-> k, ks |-> u, rdm |-> r, sub |-> s]
R == Reference
Singles == {Conf(a, R.pol, R.kt, R.ks, R.rdm, R.sub) : a \in AllAccels}
           \cup {Conf(R.acc, p, R.kt, R.ks, R.rdm, R.sub) : p \in Policies}
           \cup {Conf(R.acc, R.pol, k, R.ks, R.rdm, R.sub) : k \in StiffnessTypes}
           \cup {Conf(R.acc, R.pol, R.kt, u, R.rdm, R.sub) : u \in UpdatePolicies}
           \cup {Conf(R.acc, R.pol, R.kt, R.ks, r, R.sub) : r \in RoundingModes}
           \cup {Conf(R.acc, R.pol, R.kt, R.ks, R.rdm, s) : s \in SubSteppings}
QuickPairs == {Conf(a, p, R.kt, R.ks, R.rdm, R.sub) : a \in DefaultAccels, p \in Policies}
              \cup {Conf(a, R.pol, k, R.ks, R.rdm, R.sub) : a \in DefaultAccels, k \in StiffnessTypes}
              \cup {Conf(R.acc, p, k, R.ks, R.rdm, R.sub) : p \in Policies, k \in StiffnessTypes}
              \cup {Conf(a, R.pol, R.kt, R.ks, r, R.sub) : a \in DefaultAccels, r \in {"UpWard", "Random"}}
Product == {Conf(a, p, k, R.ks, r, R.sub) : a \in DefaultAccels, p \in Policies, k \in StiffnessTypes, r \in RoundingModes}
           \cup {Conf(a, p, k, R.ks, R.rdm, R.sub) : a \in AllAccels, p \in Policies, k \in StiffnessTypes}
           \cup {Conf(a, p, R.kt, u, R.rdm, s) : a \in DefaultAccels, p \in Policies, u \in UpdatePolicies, s \in SubSteppings}
           \cup {Conf(R.acc, R.pol, k, u, r, s) : k \in StiffnessTypes, u \in UpdatePolicies, r \in RoundingModes, s \in SubSteppings}
Confs == IF Tier = "thorough" THEN Singles \cup QuickPairs \cup Product ELSE Singles \cup QuickPairs
Supported(prob, c) == prob.kind = "linear" \/ c.kt # "TangentOperator"
\* fault-injected runs of the linear problems: sub-stepping options that allow a failure
Faulted == {<<f, Conf(a, p, R.kt, R.ks, r, s)>> : f \in {"F", "N"}, a \in {RefAccel} \cup {Default(x) : x \in {y \in Registered : y.name \in {"Cast3M", "UAnderson", "Secant"}}},
                                                  p \in Policies, r \in {"ToNearest", "DownWard"}, s \in {<<0, FALSE>>, <<3, FALSE>>, <<10, TRUE>>}}
FaultedOk(x) == x[1] = "F" \/ x[2].acc.name = "none"
Out(prob, c, f) == [prob |-> prob.name, kind |-> prob.kind, fault |-> f,
                    acc |-> [name |-> c.acc.name, how |-> c.acc.how, params |-> c.acc.params],
                    den |-> [name |-> Denotes(c.acc).name, trig |-> Denotes(c.acc).trig, per |-> Denotes(c.acc).per],
                    pol |-> c.pol, kt |-> c.kt, ks |-> c.ks, rdm |-> c.rdm, maxsub |-> c.sub[1], dyn |-> IF c.sub[2] THEN 1 ELSE 0,
                    isref |-> IF c = Reference /\ f = "none" THEN 1 ELSE 0]
CaseSet == UNION {{Out(Problems[i], c, "none") : c \in {x \in Confs : Supported(Problems[i], x)}} : i \in 1..Len(Problems)}
           \cup UNION {{Out(Problems[i], x[2], x[1]) : x \in {y \in Faulted : FaultedOk(y)}} : i \in {j \in 1..Len(Problems) : Problems[j].kind = "linear"}}
CaseSeq == SetToSeq(CaseSet)
Cases == [i \in 1..Len(CaseSeq) |-> [id |-> i] @@ CaseSeq[i]]
ASSUME ndJsonSerialize(IOEnv.OUT, Cases)
ASSUME PrintT(<<"GEN", Len(CaseSeq)>>)
=============================================================================

--------------------------- MODULE MTestSolverGen ---------------------------
(* GEN: every complete behaviour of MTestSolver (for the input files Confs) becomes one test case.
   The history variable `hist` records the attempts with their outcomes; each terminal state is printed
   once as a JSON document (one line of TLC's output, a JSON string literal):
     [cf, hist = <<[t, dt, o]>>, acc = accepted steps, rows, fin = "done" | "throw"]
   The driver turns `hist` into the fault plan of the probe behaviour and replays it with the real mtest. *)
EXTENDS MTestSolver, Json
VARIABLE hist
gvars == <<vars, hist>>
GenInit == Init /\ hist = <<>>
GenNext == \/ (\E o \in Outcomes : Attempt(o) /\ hist' = Append(hist, [t |-> t, dt |-> dt, o |-> o]))
           \/ ((Begin \/ Update \/ Revert \/ Output \/ Finished) /\ UNCHANGED hist)
GenSpec == GenInit /\ [][GenNext]_gvars
\* at most MaxFail failed attempts in a behaviour (bounds the number of cases)
CONSTANT MaxFail
\* ... and no attempt repeated with the same (t, dt): after a reduction the clamp of the dynamic mode may restore the
\* time step that has just failed; the probe behaviour cannot tell such a retry from further iterations of the
\* failed attempt, so these behaviours are model-checked but not replayed
NoIdenticalRetry == \A i, j \in 1..Len(hist) : i < j => <<hist[i].t, hist[i].dt>> # <<hist[j].t, hist[j].dt>>
Bounded == Cardinality({i \in 1..Len(hist) : hist[i].o[1] # "ok"}) <= MaxFail /\ NoIdenticalRetry
Emit == (pc \in {"done", "throw"}) =>
           PrintT(ToJson([cf |-> cf, hist |-> hist, acc |-> acc, rows |-> rows, fin |-> pc]))
=============================================================================

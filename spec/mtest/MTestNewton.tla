----------------------------- MODULE MTestNewton -----------------------------
(* C49 - one call of iterate() of mtest/src/GenericSolver.cxx (one attempt of a time step) as a state machine.

     prepare, aa->preExecuteTasks()
     prediction phase, selected by the policy: the iterate u1 is left alone (NoPrediction), extrapolated
       (LinearPrediction) or corrected with an operator of the behaviour (Elastic / Secant / Tangent prediction)
     loop:  ++iter; residual and stiffness (behaviour integration with the requested stiffness matrix type: may fail),
            du = K^-1 r (LU), u1 -= du,
            converged = (iter > 1 or a prediction policy is set) and criteria(du, r, constraints),
            if not converged: give up when iter = iterMax, else call the acceleration hook aa->execute(u1, du, r, eeps,
            seps, iter) - which may replace u1 and nothing else - and iterate again
     aa->postExecuteTasks(), postConvergence: the caller commits u1 (scs.update) iff the attempt converged.

   What the property needs from this loop: whatever the acceleration algorithm, the prediction policy and the
   stiffness matrix type, the iterate that is committed was produced by a plain correction u1 -= K^-1 r whose
   criteria were evaluated and met, i.e. the options only change the path, never the acceptance test
   (CommitTested); the hook is never called on an accepted iteration (NoHookAfterConvergence).
   HookBug = TRUE models an implementation that calls the hook before looking at the outcome of the test: TLC
   must reject it. *)
EXTENDS MTestOptions, TLC
CONSTANTS Algos,       \* the algorithm records explored (NoAccel, or elements of Registered with other triggers / periods)
          IterMaxs,    \* values of @MaximumNumberOfIterations
          HookBug
VARIABLES cfg,     \* [acc, pol, kt, itmax]: the options of this run (never change)
          pc,      \* "start" | "iterate" | "tested" | "hook" | "post" | "done" | "fail"
          iter,    \* iteration counter of the attempt
          who,     \* who wrote the current value of the iterate u1: "committed" | "pred" | "newton" | "accel"
          met,     \* were the criteria met at the last test ?
          hooks    \* iterations after which the hook was called in this attempt
vars == <<cfg, pc, iter, who, met, hooks>>

Predicts == cfg.pol # "NoPrediction"
Converged == met /\ (iter > 1 \/ Predicts)

Init == /\ cfg \in [acc : Algos, pol : Policies, kt : StiffnessTypes, itmax : IterMaxs]
        /\ pc = "start" /\ iter = 0 /\ who = "committed" /\ met = FALSE /\ hooks = {}
\* a new attempt: prepare, preExecuteTasks, prediction phase (a prediction operator may be refused by the behaviour)
Start(done) == /\ pc = "start"
               /\ who' = IF Predicts /\ done THEN "pred" ELSE "committed"
               /\ iter' = 0 /\ met' = FALSE /\ hooks' = {} /\ pc' = "iterate"
               /\ UNCHANGED cfg
\* one iteration: integration (ok or not), correction, test (m = criteria met)
Iterate(ok, m) == /\ pc = "iterate"
                  /\ iter' = iter + 1
                  /\ IF ok THEN who' = "newton" /\ met' = m /\ pc' = (IF HookBug THEN "hook" ELSE "tested")
                           ELSE pc' = "fail" /\ UNCHANGED <<who, met>>
                  /\ UNCHANGED <<cfg, hooks>>
Decide == /\ pc = "tested"
          /\ pc' = IF Converged THEN "post" ELSE IF iter = cfg.itmax THEN "fail"
                   ELSE IF HookBug THEN "iterate" ELSE "hook"
          /\ UNCHANGED <<cfg, iter, who, met, hooks>>
\* the acceleration hook: it may replace the iterate when the algorithm acts at this iteration; nothing else changes
Hook(mod) == /\ pc = "hook"
             /\ (mod => Acts(cfg.acc, iter))
             /\ hooks' = IF cfg.acc.name = "none" THEN hooks ELSE hooks \cup {iter}
             /\ who' = IF mod THEN "accel" ELSE who
             /\ pc' = IF HookBug THEN "tested" ELSE "iterate"
             /\ UNCHANGED <<cfg, iter, met>>
Post == pc = "post" /\ pc' = "done" /\ UNCHANGED <<cfg, iter, who, met, hooks>>
Finished == pc \in {"done", "fail"} /\ UNCHANGED vars
Next == (\E d \in BOOLEAN : Start(d)) \/ (\E ok, m \in BOOLEAN : Iterate(ok, m)) \/ Decide
        \/ (\E mod \in BOOLEAN : Hook(mod)) \/ Post \/ Finished
Spec == Init /\ [][Next]_vars
FairSpec == Spec /\ WF_vars(Next)

TypeOK == /\ pc \in {"start", "iterate", "tested", "hook", "post", "done", "fail"}
          /\ who \in {"committed", "pred", "newton", "accel"} /\ iter \in 0..cfg.itmax /\ met \in BOOLEAN
Accepted == pc \in {"post", "done"}
\* the committed iterate is the result of a plain correction whose criteria were met: no option can change that
CommitTested == Accepted => who = "newton" /\ met
\* without prediction the first iteration is never accepted
TwoIterationsWithoutPrediction == Accepted /\ ~Predicts => iter >= 2
\* the hook is only called after rejected iterations, before the last allowed one
NoHookAfterConvergence == Accepted => iter \notin hooks
HookBeforeNextIteration == \A i \in hooks : i < cfg.itmax /\ i <= iter
IterBound == iter <= cfg.itmax
Terminates == <>(pc \in {"done", "fail"})
=============================================================================

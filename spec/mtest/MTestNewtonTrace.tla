-------------------------- MODULE MTestNewtonTrace --------------------------
(* Validation of the log of real mtest runs (--verbose=level2) against MTestNewton.tla (C49).
   The driver turns the lines of the log into events, in order (several runs are concatenated):
     Run(acc = [name, trig, per], pol, kt, itmax)  the options of the input file (acc as denoted by MTestOptions!Denotes)
     Iter(k, ne, nr)   "iteration k : ne nr (...)": ne / nr = 0 when the norm is below @StrainEpsilon / @StressEpsilon,
                       2 when it is above, 1 when it is within 1e-5 (relative) of it (the log has 6 digits)
     Act(label)        "<label> acceleration convergence": the algorithm announces that it replaces the iterate
     Hook(k)           "accelerated-sequence-convergence k ...": printed by iterate() after every call of the hook
     Conv(k)           "convergence, after k iterations" / "convergence, after one iteration"
     NoConv            "No convergence, the following criteria were not met" (printed when iter = iterMax)
     BFail             "behaviour intregration failed"
     End(rc)           exit status of mtest
   Attempts follow each other (next time step, or the same one with a smaller time step: MTestSolver.tla's business). *)
EXTENDS MTestNewton, TraceIO
VARIABLE acted      \* an Act event was seen since the last Hook
tvars == <<vars, l, acted>>
\* labels that an algorithm may print (the Delta2 / 2Delta variants fall back on the secant variants)
Labels(n) == CASE n = "Cast3M" -> {"Cast3M"}
               [] n = "Secant" -> {"Secant"}
               [] n = "IronsTuck" -> {"Irons Tuck"}
               [] n = "Steffensen" -> {"Steffensen"}
               [] n = "AlternateSecant" -> {"AlternateSecant"}
               [] n = "AlternateDelta2" -> {"AlternateSecant", "AlternateDelta2"}
               [] n = "Alternate2Delta" -> {"Alternate2Delta"}
               [] n = "CrossedSecant" -> {"CrossedSecant"}
               [] n = "CrossedDelta2" -> {"CrossedSecant", "CrossedDelta2"}
               [] n = "Crossed2Delta" -> {"CrossedSecant", "Crossed2Delta"}
               [] n = "Crossed2Deltabis" -> {"CrossedSecant", "Crossed2Deltabis"}
               [] OTHER -> {}
CfgOf(e) == [acc |-> [name |-> e.acc.name, trig |-> e.acc.trig, per |-> e.acc.per], pol |-> e.pol, kt |-> e.kt, itmax |-> e.itmax]
\* the criteria can only have been met if neither norm is above its threshold (the constraints may still refuse)
MayBeMet(e, m) == m => (e.ne # 2 /\ e.nr # 2)
Idle == pc \in {"start", "done", "fail"}

TraceInit == /\ l = 1 /\ Tr[1].e = "Run" /\ acted = FALSE
             /\ cfg = CfgOf(Tr[1]) /\ pc = "start" /\ iter = 0 /\ who = "committed" /\ met = FALSE /\ hooks = {}
TFirstRun == l = 1 /\ IsEvent("Run") /\ UNCHANGED <<vars, acted>>
TRun == /\ l > 1 /\ IsEvent("Run") /\ Idle
        /\ cfg' = CfgOf(Ev) /\ pc' = "start" /\ iter' = 0 /\ who' = "committed" /\ met' = FALSE /\ hooks' = {} /\ acted' = FALSE
\* a new attempt begins without any line of its own: the first line is that of its first iteration (or of a failure)
TStart == /\ Idle /\ l <= Len(Tr) /\ Tr[l].e \in {"Iter", "BFail"} /\ (Tr[l].e = "Iter" => Tr[l].k = 1)
          /\ \E d \in BOOLEAN : /\ who' = IF Predicts /\ d THEN "pred" ELSE "committed"
          /\ iter' = 0 /\ met' = FALSE /\ hooks' = {} /\ pc' = "iterate"
          /\ UNCHANGED <<cfg, l, acted>>
TIter == /\ IsEvent("Iter") /\ pc = "iterate" /\ Ev.k = iter + 1
         /\ \E m \in BOOLEAN : MayBeMet(Ev, m) /\ Iterate(TRUE, m)
         /\ UNCHANGED acted
TBFail == IsEvent("BFail") /\ pc = "iterate" /\ Iterate(FALSE, FALSE) /\ UNCHANGED acted
TDecide == Decide /\ UNCHANGED <<l, acted>>
TAct == /\ IsEvent("Act") /\ pc = "hook" /\ ~acted /\ Acts(cfg.acc, iter) /\ Ev.label \in Labels(cfg.acc.name)
        /\ acted' = TRUE /\ UNCHANGED vars
THook == /\ IsEvent("Hook") /\ pc = "hook" /\ cfg.acc.name # "none" /\ Ev.k = iter
         /\ \E mod \in BOOLEAN : (acted => mod) /\ Hook(mod)
         /\ acted' = FALSE
TNoHook == pc = "hook" /\ cfg.acc.name = "none" /\ Hook(FALSE) /\ UNCHANGED <<l, acted>>
TConv == IsEvent("Conv") /\ pc = "post" /\ Ev.k = iter /\ Post /\ UNCHANGED acted
TNoConv == IsEvent("NoConv") /\ pc = "fail" /\ iter = cfg.itmax /\ met = met /\ UNCHANGED <<vars, acted>>
TEnd == IsEvent("End") /\ (IF Ev.rc = 0 THEN pc = "done" ELSE pc = "fail") /\ UNCHANGED <<vars, acted>>
TraceNext == TFirstRun \/ TRun \/ TStart \/ TIter \/ TBFail \/ TDecide \/ TAct \/ THook \/ TNoHook \/ TConv \/ TNoConv \/ TEnd
TraceSpec == TraceInit /\ [][TraceNext]_tvars
=============================================================================

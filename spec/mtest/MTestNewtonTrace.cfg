SPECIFICATION TraceSpec
CONSTANTS
  Algos = {}
  IterMaxs = {}
  HookBug = FALSE
INVARIANTS CommitTested TwoIterationsWithoutPrediction NoHookAfterConvergence HookBeforeNextIteration IterBound
CONSTRAINT TrackMaxL
POSTCONDITION ReportMaxL
CHECK_DEADLOCK FALSE

-------------------------- MODULE MTestSolverTrace --------------------------
(* Validation of real MTest runs against MTestSolver.tla (C48: time loop; C50: a rejected step leaves no trace).

   The behaviour driven by MTest is the probe harness/mfront/VfMTProbe.mfront: it logs every call (time at
   the beginning of the step, time step, digest hb of the state it is given at the beginning of the step,
   digest hi of the increments it is given) and injects the faults of the plan.  The driver groups the calls
   of one attempt (same t, dt) and merges them with the rows of the result file (@OutputFrequency
   'EveryPeriod'), in order:
     Run(times, maxsub, dyn, mindt, maxdt)    one MTest run begins (several runs are concatenated in one trace)
     Attempt(t, dt, out, n, d, hb, hi, ref, rb, ri)
                                         out = "ok" | "fail" | "reject" (with factor n/d) as decided by the probe;
                                         hb / hi = digests at the first call of the attempt;
                                         ref = 1 on accepted attempts: rb / ri = the digests seen at the same step by
                                         the reference run, which is given the accepted steps as its @Times and no fault
     Row(t, same, imp)                   a row of the result file; same = 1 iff it is identical to the reference's;
                                         imp[i] = <<q, tight>>: value of the i-th imposed component in units of 2^-20
                                         (nearest integer, tight = 1 iff within the @StrainEpsilon / @StressEpsilon of
                                         the input file); the Run event gives the evolutions `evo` of those components:
                                         <<"lpi", <<t1, v1, t2, v2, ...>>>> (piecewise linear, constant outside its points)
                                         or <<"fn", a, b>> (a + b t), in ticks and the same units
     End(rc)                             exit status of mtest (0 = completed)                                  *)
EXTENDS MTestSolver, TraceIO
CONSTANTS CheckDigests,    \* C50 obligations (digests of the state seen by the behaviour, rows identical to the reference's)
          CheckLoadings    \* C48 obligations (imposed components equal to their evolution on every row)
VARIABLE evo       \* the evolutions of the imposed components of the current run
VARIABLE hbcur     \* digest of the committed state as seen by the attempts since the last update (<<>> = not seen yet)
tvars == <<vars, l, hbcur, evo>>

\* ---- C48: value of an evolution at time tt (ticks) ------------------------------------------------------
NbPts(p) == Len(p) \div 2
PT(p, i) == p[2 * i - 1]
PV(p, i) == p[2 * i]
Lpi(p, tt) == IF tt <= PT(p, 1) THEN PV(p, 1)
              ELSE IF tt >= PT(p, NbPts(p)) THEN PV(p, NbPts(p))
              ELSE LET i == CHOOSE j \in 1..(NbPts(p) - 1) : PT(p, j) <= tt /\ tt < PT(p, j + 1)
                   \* the slopes of the generated evolutions are integers (and 32 bit integers overflow on the product otherwise)
                   IN PV(p, i) + ((PV(p, i + 1) - PV(p, i)) \div (PT(p, i + 1) - PT(p, i))) * (tt - PT(p, i))
EvoAt(ev, tt) == IF ev[1] = "lpi" THEN Lpi(ev[2], tt) ELSE ev[2] + ev[3] * tt
Loaded(e, tt) == CheckLoadings => \A i \in 1..Len(evo) : e.imp[i][2] = 1 /\ e.imp[i][1] = EvoAt(evo[i], tt)
Same(e) == CheckDigests => e.same = 1

ConfOf(e) == [times |-> e.times, maxsub |-> e.maxsub, dyn |-> (e.dyn = 1), mindt |-> e.mindt, maxdt |-> e.maxdt]
TraceInit == /\ l = 1 /\ Tr[1].e = "Run" /\ hbcur = <<>> /\ evo = Tr[1].evo
             /\ cf = ConfOf(Tr[1])
             /\ k = 1 /\ t = cf.times[1] /\ dt = 0 /\ sub = 0 /\ pc = "begin" /\ out = <<"ok">>
             /\ work = "clean" /\ acc = <<>> /\ rows = <<cf.times[1]>>
\* the first Run event is consumed by the initial state; the following ones restart the machine
TFirstRun == /\ l = 1 /\ IsEvent("Run") /\ UNCHANGED <<vars, hbcur, evo>>
TRun == /\ l > 1 /\ IsEvent("Run") /\ pc \in {"done", "throw"}
        /\ cf' = ConfOf(Ev) /\ hbcur' = <<>> /\ evo' = Ev.evo
        /\ k' = 1 /\ t' = Ev.times[1] /\ dt' = 0 /\ sub' = 0 /\ pc' = "begin" /\ out' = <<"ok">>
        /\ work' = "clean" /\ acc' = <<>> /\ rows' = <<Ev.times[1]>>
\* the first row of the result file is the initial state
TRow0 == /\ IsEvent("Row") /\ pc = "begin" /\ k = 1 /\ acc = <<>> /\ Ev.t = cf.times[1] /\ Same(Ev)
         /\ Begin /\ UNCHANGED <<hbcur, evo>>
\* no event for the beginning of the next interval
TBegin == /\ pc = "begin" /\ k > 1 /\ Begin /\ UNCHANGED <<l, hbcur, evo>>
OutOf(e) == IF e.out = "ok" THEN <<"ok">> ELSE IF e.out = "fail" THEN <<"fail">> ELSE <<"reject", e.n, e.d>>
TAttempt == /\ IsEvent("Attempt") /\ pc = "attempt"
            /\ Ev.t = t /\ Ev.dt = dt                                \* the attempt the model expects
            /\ (CheckDigests => (hbcur = <<>> \/ hbcur = Ev.hb))     \* C50: a retry sees the committed state again
            /\ (CheckDigests /\ Ev.ref = 1 => (Ev.hb = Ev.rb /\ Ev.hi = Ev.ri))  \* C50: ... and so does the direct run
            /\ hbcur' = Ev.hb
            /\ (~Converged(OutOf(Ev)) => Reducible(dt, OutOf(Ev)))
            /\ out' = OutOf(Ev) /\ work' = "dirty" /\ pc' = "decide"
            /\ UNCHANGED <<cf, k, t, dt, sub, acc, rows, evo>>
\* an accepted attempt: the row of an intermediate step follows at once
TUpdate == /\ pc = "decide" /\ Converged(out) /\ Update /\ hbcur' = <<>> /\ UNCHANGED evo
           /\ IF pc' = "output" THEN UNCHANGED l
              ELSE IsEvent("Row") /\ Ev.t = t' /\ Same(Ev) /\ Loaded(Ev, t')
TRevert == /\ pc = "decide" /\ ~Converged(out) /\ Revert /\ UNCHANGED <<l, hbcur, evo>>
TOutput == /\ IsEvent("Row") /\ pc = "output" /\ Ev.t = Te /\ Same(Ev) /\ Loaded(Ev, Te) /\ Output /\ UNCHANGED <<hbcur, evo>>
TEnd == /\ IsEvent("End") /\ (IF Ev.rc = 0 THEN pc = "done" ELSE pc = "throw") /\ UNCHANGED <<vars, hbcur, evo>>
TraceNext == TFirstRun \/ TRun \/ TRow0 \/ TBegin \/ TAttempt \/ TUpdate \/ TRevert \/ TOutput \/ TEnd
TraceSpec == TraceInit /\ [][TraceNext]_tvars
=============================================================================

SPECIFICATION TraceSpec
CONSTANTS
  Confs = {}
  Factors <- TraceFactors
  ClampFixed = TRUE
  Algos = {}
  IterMaxs = {}
INVARIANTS AcceptedOnlyIfTested FreshAttempt SolverInvariants NewtonInvariants
CONSTRAINT TrackMaxL
POSTCONDITION ReportMaxL
CHECK_DEADLOCK FALSE

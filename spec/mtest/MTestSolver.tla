----------------------------- MODULE MTestSolver -----------------------------
(* The time loop of MTest: MTest::execute (mtest/src/MTest.cxx) walks the requested times and calls
   GenericSolver::execute (mtest/src/GenericSolver.cxx) on every interval [ti, te], which integrates
   the interval with sub-stepping - C48 (the loop ends exactly at each requested time) and C50 (a
   rejected attempt leaves no trace).

   Times are integers (ticks).  One attempt = one call of iterate(): its outcome is
     <<"ok">>            converged, the behaviour proposes a time step scaling factor >= 1
     <<"fail">>          behaviour failure or no convergence              (r.first = false)
     <<"reject", n, d>>  converged but the behaviour proposes the factor n/d < 1 (dynamic scaling only;
                         a behaviour can never propose more than 1 to MTest, see GenericBehaviour.cxx)
   After a failed attempt the state is reverted and the time step reduced (halved, or multiplied by the
   proposed factor with dynamic scaling); after a success the state is updated, the time advanced and
   - with dynamic scaling - the time step clamped so that the interval is not overshot:
        if (dt > te - t - minimal_time_step) dt = te - t;
   `minimal_time_step` is -1 when the user did not give @MinimalTimeStep: ClampFixed = FALSE models the
   pinned code, which uses that -1 as it is (slack of one time unit), ClampFixed = TRUE the repaired
   code, which uses max(minimal_time_step, 0). *)
EXTENDS Integers, Sequences, FiniteSets, TLC
CONSTANTS Confs,        \* the input files explored: records [times, maxsub, dyn, mindt, maxdt]
                        \*   times  : sequence of requested times (ticks), increasing        (@Times)
                        \*   maxsub : @MaximumNumberOfSubSteps
                        \*   dyn    : @DynamicTimeStepScaling
                        \*   mindt  : @MinimalTimeStep in ticks, or minus one time unit when not given (the code's -1)
                        \*   maxdt  : @MaximalTimeStep in ticks, 0 when not given (only used with dynamic scaling)
          Factors,      \* the factors <<n, d>> a behaviour may propose when it rejects a step
          ClampFixed
VARIABLES cf,       \* the input file of this run (never changes)
          k,        \* index of the current interval: [Times[k], Times[k+1]]
          t, dt,    \* current time and time step
          sub,      \* number of failed attempts in this interval
          pc,       \* "begin" | "attempt" | "decide" | "output" | "done" | "throw"
          out,      \* outcome of the attempt being decided
          work,     \* "clean": the working state (u1, s1, iv1 ...) equals the committed one; "dirty" otherwise
          acc,      \* accepted steps <<t, dt>> in order: what the committed state depends on
          rows      \* times at which an output row was written
vars == <<cf, k, t, dt, sub, pc, out, work, acc, rows>>
Times == cf.times
MaxSub == cf.maxsub
Dynamic == cf.dyn
MinDt == cf.mindt
MaxDt == cf.maxdt

Ti == Times[k]
Te == Times[k + 1]
Outcomes == {<<"ok">>, <<"fail">>} \cup (IF Dynamic THEN {<<"reject", f[1], f[2]>> : f \in Factors} ELSE {})

\* ---- the pure functions of GenericSolver::execute ---------------------------------------------------
Converged(o) == o[1] = "ok"          \* dynamic scaling: r.first /\ r.second >= 1 - 10 eps
\* time step after a rejected attempt (exact rational arithmetic: only defined when it is an integer)
Reducible(d, o) == IF Dynamic /\ o[1] = "reject" THEN (d * o[2]) % o[3] = 0 ELSE d % 2 = 0
Reduced(d, o) == IF Dynamic /\ o[1] = "reject" THEN (d * o[2]) \div o[3] ELSE d \div 2
                 \* a failure with dynamic scaling: rdt = max(min(0.5, r.second), min factor) = 1/2 here
Slack == IF ClampFixed THEN (IF MinDt > 0 THEN MinDt ELSE 0) ELSE MinDt
\* the adjustment made at the end of the loop body when the interval is not finished:
\*   if (maximal_time_step > 0) dt = min(dt, maximal_time_step);  if (dt > te - t - slack) dt = te - t;
\* It is NOT applied to the first attempt of an interval (dt = te - ti whatever @MaximalTimeStep says): modelled as the
\* code does it, see MaxStepRespected below
Capped(d) == IF Dynamic /\ MaxDt > 0 /\ d > MaxDt THEN MaxDt ELSE d
Clamp(tt, d, te) == IF Dynamic /\ Capped(d) > te - tt - Slack THEN te - tt ELSE Capped(d)
TooSmall(d) == d < MinDt \/ d < 0

Init == /\ cf \in Confs
        /\ k = 1 /\ t = cf.times[1] /\ dt = 0 /\ sub = 0 /\ pc = "begin" /\ out = <<"ok">>
        /\ work = "clean" /\ acc = <<>> /\ rows = <<cf.times[1]>>

Begin == /\ pc = "begin"
         /\ t' = Ti /\ dt' = Te - Ti /\ sub' = 0 /\ pc' = "attempt"
         /\ UNCHANGED <<cf, k, out, work, acc, rows>>
\* iterate(): the working state is modified, whatever the outcome
Attempt(o) == /\ pc = "attempt" /\ o \in Outcomes
              /\ (~Converged(o) => Reducible(dt, o))
              /\ out' = o /\ work' = "dirty" /\ pc' = "decide"
              /\ UNCHANGED <<cf, k, t, dt, sub, acc, rows>>
\* scs.update(dt); t += dt; ++period; printOutput for intermediate steps
Update == /\ pc = "decide" /\ Converged(out)
          /\ acc' = Append(acc, <<t, dt>>) /\ work' = "clean"
          /\ t' = t + dt
          /\ IF t' >= Te
             THEN /\ pc' = "output" /\ dt' = dt /\ rows' = rows
             ELSE /\ dt' = Clamp(t', dt, Te)
                  /\ rows' = Append(rows, t')
                  /\ pc' = IF TooSmall(dt') THEN "throw" ELSE "attempt"
          /\ UNCHANGED <<cf, k, sub, out>>
\* scs.revert(); reduce the time step
Revert == /\ pc = "decide" /\ ~Converged(out)
          /\ sub' = sub + 1
          /\ IF sub' = MaxSub
             THEN /\ pc' = "throw" /\ UNCHANGED <<dt, work>>
             ELSE /\ work' = "clean"
                  /\ dt' = Clamp(t, Reduced(dt, out), Te)
                  /\ pc' = IF TooSmall(dt') THEN "throw" ELSE "attempt"
          /\ UNCHANGED <<cf, k, t, out, acc, rows>>
\* MTest::execute: printOutput(te, state) - the row is labelled with the requested time
Output == /\ pc = "output"
          /\ rows' = Append(rows, Te)
          /\ IF k + 1 = Len(Times) THEN pc' = "done" /\ k' = k ELSE pc' = "begin" /\ k' = k + 1
          /\ UNCHANGED <<cf, t, dt, sub, out, work, acc>>
Finished == pc \in {"done", "throw"} /\ UNCHANGED vars

Next == Begin \/ (\E o \in Outcomes : Attempt(o)) \/ Update \/ Revert \/ Output \/ Finished
Spec == Init /\ [][Next]_vars
FairSpec == Spec /\ WF_vars(Next)

TypeOK == /\ k \in 1..(Len(Times) - 1) /\ pc \in {"begin", "attempt", "decide", "output", "done", "throw"}
          /\ work \in {"clean", "dirty"} /\ sub \in 0..MaxSub
\* C48: the time loop ends exactly at the requested time (the row labelled Te describes the state at Te)
ExactEnd == pc = "output" => t = Te
\* ... and never integrates beyond it
NoOvershoot == pc \in {"attempt", "decide"} => (dt > 0 /\ t + dt <= Te)
\* @MaximalTimeStep bounds every attempt but the first one of an interval, up to the slack of the final clamp
MaxStepRespected == (pc \in {"attempt", "decide"} /\ Dynamic /\ MaxDt > 0 /\ (sub > 0 \/ t > Ti)) => dt <= MaxDt + (IF Slack > 0 THEN Slack ELSE 0)
\* the accepted steps tile the time axis from the first requested time to the current time
Contiguous == /\ \A i \in 1..Len(acc) : acc[i][2] > 0
              /\ \A i \in 1..(Len(acc) - 1) : acc[i + 1][1] = acc[i][1] + acc[i][2]
              /\ (acc # <<>> => acc[1][1] = Times[1])
              /\ (acc # <<>> /\ pc \in {"attempt", "output", "begin", "done"} =>
                    t = acc[Len(acc)][1] + acc[Len(acc)][2])
\* C50: every attempt starts from the committed state
CleanAttempt == pc = "attempt" => work = "clean"
\* every requested time gets its row, in order
RowsOrdered == \A i \in 1..(Len(rows) - 1) : rows[i] < rows[i + 1]
AllRequested == pc = "done" => \A i \in 1..Len(Times) : \E j \in 1..Len(rows) : rows[j] = Times[i]
Terminates == <>(pc \in {"done", "throw"})
=============================================================================

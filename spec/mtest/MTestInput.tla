------------------------------- MODULE MTestInput -------------------------------
(* The language of the input files of mtest as a state machine, with the mistakes of InputLanguage
   (C54).

   A file is a sequence of statements "@Keyword<option> arguments ;".  Strings are quoted with '
   (or "), arrays and time tables are written { a , b } and { t : v , ... }, formulae are strings.
   The scheme is selected by the extension of the file or by --scheme: mtest (a material point:
   behaviour, material properties, imposed strains / stresses, times, tests) or ptest (a pipe:
   radii, mesh, loadings, profiles).  The behaviour is loaded from a shared library: the token
   @library@ stands for the path of the library of generic-interface behaviours that the driver
   builds from the repository's own mfront files; it is substituted on the command line
   (--@library@=...), as cmake does for the repository's tests.

   Skeletons gives valid files of both schemes (the driver checks that the real mtest runs each of
   them successfully: obligation ValidAccepted).  The machine of InputMachine writes the files. *)
EXTENDS InputMachine

Skeletons == <<
  [dsl |-> "mtest", kind |-> "mtest", ins |-> 8, file |-> <<
     "@Author A. Seven ;",
     "@Date 22 / 09 / 2026 ;",
     "@Description { a creep test } ;",
     "@ModellingHypothesis 'Tridimensional' ;",
     "@MaximumNumberOfSubSteps 1 ;",
     "@Behaviour < generic > @library@ 'ImplicitNorton' ;",
     "@MaterialProperty < constant > 'YoungModulus' 150.e9 ;",
     "@MaterialProperty < constant > 'PoissonRatio' 0.3 ;",
     "@Real 'srr' 20.e6 ;",
     "@ImposedStress 'SXX' 'srr' ;",
     "@ImposedStress 'SYY' { 0 : 0. , 3600 : 0. } ;",
     "@ExternalStateVariable 'Temperature' 293.15 ;",
     "@InternalStateVariable 'ElasticStrain' { 0.00013333333333333333 , -0.00004 , -0.00004 , 0. , 0. , 0. } ;",
     "@Strain { 0.00013333333333333333 , -0.00004 , -0.00004 , 0. , 0. , 0. } ;",
     "@Stress { 20.e6 , 0. , 0. , 0. , 0. , 0. } ;",
     "@Times { 0. , 3600 in 4 } ;",
     "@Real 'A' 8.e-67 ;",
     "@Real 'E' 8.2 ;",
     "@Evolution < function > 'f' 'sin(t)' ;",
     "@OutputFilePrecision 10 ;",
     "@StiffnessMatrixType 'ConsistentTangentOperator' ;",
     "@PredictionPolicy 'LinearPrediction' ;",
     "@Test < function > 'EXX' '0.00013333333333333333+A*SXX**E*t' 1.e-9 ;",
     "@Test < function > 'SYY' '0.' 1.e-3 ;" >>],
  [dsl |-> "mtest", kind |-> "mtest", ins |-> 6, file |-> <<
     "@Author A. Seven ;",
     "@Behaviour < generic > @library@ 'Elasticity' ;",
     "@MaterialProperty < constant > 'YoungModulus' 150.e9 ;",
     "@MaterialProperty < function > 'PoissonRatio' '0.3+0*t' ;",
     "@ExternalStateVariable < evolution > 'Temperature' { 0 : 293.15 , 1. : 800 } ;",
     "@ImposedStrain < function > 'EXX' '1.e-3*t' ;",
     "@Times { 0. , 1. in 10 } ;",
     "@OutOfBoundsPolicy 'Strict' ;",
     "@AccelerationAlgorithm 'Cast3M' ;",
     "@Test < function > 'SXX' '150.e9*1.e-3*t' 1.e-2 ;",
     "@Test < function > 'EYY' '-0.3*1.e-3*t' 1.e-9 ;" >>],
  [dsl |-> "ptest", kind |-> "ptest", ins |-> 11, file |-> <<
     "@Author A. Seven ;",
     "@InnerRadius 4.18e-3 ;",
     "@OuterRadius '4.18e-3+0.57e-3' ;",
     "@NumberOfElements 4 ;",
     "@ElementType 'Linear' ;",
     "@AxialLoading 'None' ;",
     "@PerformSmallStrainAnalysis true ;",
     "@Behaviour < generic > @library@ 'Elasticity' ;",
     "@MaterialProperty < constant > 'YoungModulus' 70e9 ;",
     "@MaterialProperty < constant > 'PoissonRatio' 0.3 ;",
     "@ExternalStateVariable 'Temperature' 293.15 ;",
     "@InnerPressureEvolution 3.e7 ;",
     "@OuterPressureEvolution { 0 : 1.e5 , 1 : 1.e5 } ;",
     "@Times { 0 , 1 in 2 } ;",
     "@OutputFilePrecision 14 ;",
     "@Profile 'pipe-stresses.txt' { 'SRR' , 'SZZ' , 'STT' } ;" >>] >>

NSkel == Len(Skeletons)
SkelLen(d) == Len(Skeletons[d].file)
\* constant: the lexer runs once per statement
Lexed == LexAll(Skeletons)
SkelStmt(d, i) == Lexed[d][i]
Succ(s, P) == MachineStep(s, P, Skeletons, Lexed)
SkeletonFile(d) == Rest(Lexed, d, 1)
SkeletonWellFormed(d) == \A i \in 1..SkelLen(d) : WellFormed(SkelStmt(d, i))
=============================================================================

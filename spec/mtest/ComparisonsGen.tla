----------------------------- MODULE ComparisonsGen -----------------------------
(* every pair of values, alone in a column or next to a benign row (1, 1), for every comparison type and precision *)
EXTENDS Comparisons, TLC, Json, IOUtils, SequencesExt, FiniteSets
Rows(x, y) == {<<<<x, y>>, <<x, y>>>>, <<<<2, 2>>, <<x, y>>>>, <<<<x, y>>, <<2, 2>>>>}
One == {[type |-> t, p |-> p, p2 |-> 0, rows |-> r] : t \in {"Absolute", "Relative"}, p \in Precs,
          r \in UNION {Rows(x, y) : x \in Values, y \in Values}}
Two == {[type |-> t, p |-> p, p2 |-> q, rows |-> r] : t \in {"RelativeAndAbsolute", "Mixed"}, p \in Precs2, q \in Precs2,
          r \in UNION {Rows(x, y) : x \in Values, y \in Values}}
Number(S) == LET s == SetToSeq(S) IN [i \in 1..Len(s) |-> [id |-> i] @@ s[i]]
ASSUME ndJsonSerialize(IOEnv.OUT, Number(One \cup Two))
ASSUME PrintT(<<"GEN", Cardinality(One \cup Two)>>)
=============================================================================

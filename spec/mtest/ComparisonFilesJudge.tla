-------------------------- MODULE ComparisonFilesJudge --------------------------
(* observation = the case + success (1 iff tfel-check printed "end of test ... [SUCCESS]" for the file)
   + exit0 (1 iff a run of tfel-check on that file alone exits with 0) *)
EXTENDS Comparisons, Judge
Fails(o) == (IF FileSound(o.cmps, o.success = 1) THEN {} ELSE {"unsound-file-verdict"})
            \cup (IF FileSound(o.cmps, o.exit0 = 1) THEN {} ELSE {"unsound-exit-status"})
            \cup (IF FileSelf(o.cmps) /\ (o.success = 0 \/ o.exit0 = 0) THEN {"file-of-self-comparisons-fails"} ELSE {})
ASSUME JudgeAll(Fails)
=============================================================================

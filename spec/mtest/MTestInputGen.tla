---------------------------- MODULE MTestInputGen ----------------------------
(* GEN for C54: every finished file of the machine of MTestInput within the budgets given by the
   driver (PARAMS), and every applicable mistake on every statement of the seed files (SEEDS: the
   repository's own .mtest and .ptest files split into statements and tokens by the driver).
   DICT holds the keyword dictionaries printed by the real mtest (--help-keywords-list, both schemes). *)
EXTENDS MTestInput, Json, IOUtils, SequencesExt

Par == JsonDeserialize(IOEnv.PARAMS)
DictRecs == ndJsonDeserialize(IOEnv.DICT)
Seeds == ndJsonDeserialize(IOEnv.SEEDS)

DictOf(name) == UNION {ToSet(DictRecs[i].kws) : i \in {j \in 1..Len(DictRecs) : DictRecs[j].dsl = name}}
P == [dsls |-> ToSet(Par.dsls),
      dict |-> [d \in 1..NSkel |-> DictOf(Skeletons[d].dsl)],
      all |-> UNION {ToSet(DictRecs[i].kws) : i \in 1..Len(DictRecs)}, insdsls |-> ToSet(Par.insdsls), fordsls |-> ToSet(Par.fordsls),
      kinds |-> (IF Par.allkinds = 1 THEN KindSet ELSE ToSet(Par.kinds)), shapes |-> ToSet(Par.shapes), fshapes |-> ToSet(Par.fshapes),
      foreign |-> ToSet(Par.foreign), maxmut |-> Par.maxmut, nodsl |-> (Par.nodsl = 1)]

RECURSIVE Closure(_, _)
Closure(frontier, acc) ==
  IF frontier = {} THEN acc
  ELSE LET nxt == UNION {Succ(s, P) : s \in frontier} \ acc IN Closure(nxt, acc \cup nxt)
Reach == Closure({InitState}, {InitState})
Finished == {s \in Reach : s.done}

RECURSIVE JoinField(_, _, _)
JoinField(ms, f, i) == IF i > Len(ms) THEN "" ELSE (IF i > 1 THEN "+" ELSE "") \o ms[i][f] \o JoinField(ms, f, i + 1)

GramCase(s) ==
  [fam |-> "gram", dsl |-> Skeletons[s.dsl].dsl, kind |-> Skeletons[s.dsl].kind, seed |-> 0, idx |-> 0,
   kw |-> IF Valid(s) THEN "(none)" ELSE JoinField(s.muts, "kw", 1),
   mut |-> IF Valid(s) THEN "valid" ELSE JoinField(s.muts, "mut", 1),
   param |-> IF Valid(s) THEN "" ELSE JoinField(s.muts, "param", 1),
   expect |-> IF Valid(s) THEN "ok" ELSE "any", cut |-> 0, lines |-> FileLines(s)]

SeedKinds == IF Par.allkinds = 1 THEN KindSet ELSE ToSet(Par.seedkinds)
SeedForeign == ToSet(Par.seedforeign)
SeedCases ==
  UNION {UNION {{[fam |-> "seed", dsl |-> Seeds[i].dsl, kind |-> Seeds[i].kind, seed |-> Seeds[i].seed, idx |-> j,
                  kw |-> Label(Seeds[i].stmts[j]), mut |-> m.mut, param |-> m.param, expect |-> "any",
                  cut |-> m.cut, lines |-> Lines(m.toks)] :
                    m \in Mutants(Seeds[i].stmts[j], SeedKinds, SeedForeign)} :
                 j \in 1..Len(Seeds[i].stmts)} : i \in 1..Len(Seeds)}

\* files made of at most Par.rawn adversarial atoms (the empty file, unbalanced delimiters, lone keywords ...)
ToolAtoms == {"@Behaviour < generic > @library@ 'Elasticity' ;", "@Times", "@Real", "'a'", "@Test < function >"}
RawAtoms == (IF Par.rawfull = 1 THEN RawCore \cup RawMore ELSE RawCore) \cup ToolAtoms
RawCase(q) ==
  [fam |-> "raw", dsl |-> "raw", kind |-> "mtest", seed |-> 0, idx |-> 0, kw |-> IF Len(q) = 0 THEN "(empty file)" ELSE JoinToks(q, 1),
   mut |-> "raw", param |-> "", expect |-> "any", cut |-> 1, lines |-> Lines(q)]
RawCases == {RawCase(q) : q \in RawFiles(RawAtoms, Par.rawn)}

Number(S) == LET q == SetToSeq(S) IN [i \in 1..Len(q) |-> [id |-> i] @@ q[i]]
Cases == Number({GramCase(s) : s \in Finished} \cup SeedCases \cup RawCases)

ASSUME \A d \in 1..NSkel : SkeletonWellFormed(d)
ASSUME ndJsonSerialize(IOEnv.OUT, Cases)
ASSUME PrintT(<<"GEN", Len(Cases), Cardinality(Reach), Cardinality(Finished)>>)
=============================================================================

SPECIFICATION FairSpec
CONSTANTS
  Confs <- AllConfs
  Factors <- MCFactors
  ClampFixed = TRUE
INVARIANTS TypeOK MaxStepRespected ExactEnd NoOvershoot Contiguous CleanAttempt RowsOrdered AllRequested
PROPERTY Terminates

SPECIFICATION FairSpec
CONSTANTS
  Confs <- AllConfs
  Factors <- MCFactors
  ClampFixed = TRUE
INVARIANTS TypeOK ExactEnd NoOvershoot Contiguous CleanAttempt RowsOrdered AllRequested
PROPERTY Terminates

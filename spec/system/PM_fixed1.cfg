SPECIFICATION Spec
CONSTANTS
  T = {t1}
  Extra = {x1}
  Kinds = {"ok", "fail", "signal"}
  CheckWaitpid = TRUE
INVARIANTS TypeOK Faithful NoUAF

SPECIFICATION Spec
CONSTANTS
  Checks = {c1, c2, c3}
  Workers = {w1, w2}
  Failing = {c2}
  AtomicAppend = TRUE
INVARIANTS Contiguous AtMostOnce ExactlyOnce Verdict

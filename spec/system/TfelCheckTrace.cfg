SPECIFICATION TraceSpec
CONSTRAINT TrackMaxL
POSTCONDITION ReportMaxL
CHECK_DEADLOCK FALSE

SPECIFICATION Spec
CONSTANTS
  T = {t1, t2}
  Extra = {x1}
  Kinds = {"ok", "fail", "signal"}
  CheckWaitpid = TRUE
INVARIANTS TypeOK Faithful
CONSTRAINT NoUAFSoFar

SPECIFICATION Spec
CONSTANTS
  T = {t1, t2}
  Extra = {x1}
  Kinds = {"ok", "fail", "signal"}
  CheckWaitpid = TRUE
  ExecLocked = TRUE
  MaskCritical = TRUE
INVARIANTS TypeOK Faithful NoUAF NoSelfDeadlock

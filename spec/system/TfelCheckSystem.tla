--------------------------- MODULE TfelCheckSystem ---------------------------
(* tfel-check as a whole: the driver of TfelCheck.tla (C52) on the REAL pool protocol of ThreadPool.tla (C29), which is
   INSTANCEd unchanged.  tfel-check.cxx (TFELCheck::execute):

        pool = ThreadPool{njobs};  for every .check file: pool.addTask(check);  pool.wait();
        status = conjunction of the futures;   ... ~ThreadPool at the end of the scope

   One task = one .check file: its body runs the commands and comparisons, writes its report in a private buffer and
   appends the whole buffer to tfel-check.log under the mutex log_synchronization: here the body (WRun of the pool) appends
   the block of its check to `log` in one step.  The glue fixes how tfel-check uses the pool (TfelCheck.tla abstracts it
   by "a worker takes a file"): every task is submitted before the single call of wait(), the exit status is computed
   after wait() returned (WaitBeforeStatus = TRUE; FALSE is a mutant reading the verdicts before waiting), and the pool
   is destroyed afterwards.

   Properties of the whole:
     ExactlyOnce    when the status is known, the log holds exactly one block per .check file  (C52 + C29 WaitComplete)
     Verdict        the status is a failure iff some check fails                               (C52)
     InOrderOfCompletion, NoBlockWithoutTask: the log only holds blocks of tasks that ran, each once
     every invariant of ThreadPool.tla (AtMostOnce, NoLoss, WaitComplete, FutureFaithful, DtorDrains)
     termination under weak fairness of the threads (no lost wake-up on the shared condition variable with ONE client) *)
EXTENDS Integers, Sequences, FiniteSets, TLC
CONSTANTS NChecks,           \* number of .check files = number of tasks
          NW,                \* pool threads (-j)
          Failing,           \* the checks that fail
          MaxSpurious,
          WaitBeforeStatus
VARIABLES queue, status, stop, wtask, cvw, wpc, cpc, csub, cwaits, waitIdx, waitSnap, ran, fut, joined, spurious,   \* ThreadPool.tla
          log,               \* tfel-check.log as a sequence of blocks (check ids)
          exit               \* "running" | "success" | "failure"
pvars == <<queue, status, stop, wtask, cvw, wpc, cpc, csub, cwaits, waitIdx, waitSnap, ran, fut, joined, spurious>>
vars == <<pvars, log, exit>>

P == INSTANCE ThreadPool WITH NT <- NChecks, NC <- 1, MaxWaits <- 1, Throwing <- {}

Init == P!Init /\ log = <<>> /\ exit = "running"

Same == UNCHANGED <<log, exit>>
\* the body of a task: the report of the check is appended to the log (one critical section of log_synchronization)
RunCheck(w) == P!WRun(w) /\ log' = Append(log, wtask[w]) /\ UNCHANGED exit
Worker(w) == ((P!WTop(w) \/ P!WWake(w) \/ P!WFin(w)) /\ Same) \/ RunCheck(w)
Submit == (P!CAdd(1) \/ P!CNotify(1)) /\ Same
\* pool.wait(), called once, after every file has been submitted
CallWait == csub[1] = NChecks /\ cpc[1] = "add" /\ P!CCallWait(1) /\ Same
Waiting == (P!CWait1(1) \/ P!CWake1(1) \/ P!CWait2(1) \/ P!CWake2(1)) /\ Same
\* the exit status, from the futures
Returned == cpc[1] = "add" /\ csub[1] = NChecks /\ (WaitBeforeStatus => cwaits[1] = 1)
Status == /\ exit = "running" /\ Returned
          /\ exit' = (IF \E t \in Failing : fut[t] # "pending" THEN "failure" ELSE "success")   \* futures not ready read as successes by the mutant
          /\ UNCHANGED <<pvars, log>>
Destroy == /\ exit # "running"
           /\ (P!CDone(1) \/ P!DtorNext) /\ Same
Env == (P!Spurious \/ P!Finished) /\ Same
Next == (\E w \in 1..NW : Worker(w)) \/ Submit \/ CallWait \/ Waiting \/ Status \/ Destroy \/ Env
Spec == Init /\ [][Next]_vars
FairSpec == /\ Spec
            /\ \A w \in 1..NW : WF_vars(P!WTop(w) /\ Same) /\ WF_vars(P!WWake(w) /\ Same) /\ WF_vars(RunCheck(w)) /\ WF_vars(P!WFin(w) /\ Same)
            /\ WF_vars(Submit) /\ WF_vars(CallWait) /\ WF_vars(Waiting) /\ WF_vars(Status) /\ WF_vars(Destroy)

\* ---- properties of the whole --------------------------------------------------------------------------------
Count(c) == Cardinality({i \in 1..Len(log) : log[i] = c})
ExactlyOnce == exit # "running" => \A c \in 1..NChecks : Count(c) = 1
Verdict == exit # "running" => ((exit = "failure") = (Failing # {}))
NoBlockWithoutTask == \A i \in 1..Len(log) : ran[log[i]] >= 1
AtMostOneBlock == \A c \in 1..NChecks : Count(c) <= 1
PoolInvariants == P!AtMostOnce /\ P!NoLoss /\ P!WaitComplete /\ P!FutureFaithful /\ P!DtorDrains
Terminates == <>(cpc[1] = "end")
=============================================================================

------------------------- MODULE TfelCheckSystemTrace -------------------------
(* Trace validation of a real run of tfel-check (hooks of the pool: src/System/ThreadPool.cxx, ThreadPool.ixx) against
   TfelCheckSystem.tla.  Events of the pool, in the order of the shared event file:
     Enqueue(a = queue length after push)   Dequeue(a = worker, b = queue length after pop)   Idle(a = worker)
     WaitEnter / WaitQueueEmpty / WaitReturn      Stop   WorkerExit(a = worker)   Joined
   completed by the driver, once the process has exited:
     Log(n = number of report blocks of tfel-check.log, distinct = 1 iff they are the blocks of n different .check files)
     Exit(rc = exit status of tfel-check, nfail = number of .check files that must fail)
   The body of a task (the check itself and the append of its report) is not logged: it is composed with the Idle event of
   its worker; the computation of the status is a silent step.  Which task is which .check file is not observable: only the number of failing files matters
   (TraceFailing), as in the Verdict property. *)
EXTENDS TfelCheckSystem, TraceIO
TraceFailing == LET e == Tr[Len(Tr)] IN IF e.e = "Exit" /\ e.nfail > 0 THEN {1} ELSE {}
tvars == <<vars, l>>
TraceInit == Init /\ l = 1
WK == Ev.a + 1
Workers == 1..NW
CanTop(w) == wpc[w] \in {"top", "sleep"}
TEnqueue == /\ IsEvent("Enqueue")
            /\ cpc[1] = "add" /\ csub[1] < NChecks /\ ~stop /\ cwaits[1] = 0            \* every file is submitted before wait()
            /\ P!Push(csub[1] + 1)
            /\ csub' = [csub EXCEPT ![1] = @ + 1]
            /\ Len(queue') = Ev.a
            /\ UNCHANGED <<status, stop, wtask, cvw, wpc, cpc, cwaits, waitIdx, waitSnap, ran, fut, joined, spurious, log, exit>>
TDequeue == /\ IsEvent("Dequeue")
            /\ WK \in Workers /\ CanTop(WK) /\ status[WK] = "IDLE"
            /\ P!PopInto(WK)
            /\ Len(queue') = Ev.b
            /\ cvw' = {}
            /\ wpc' = [wpc EXCEPT ![WK] = "run"]
            /\ UNCHANGED <<stop, cpc, csub, cwaits, waitIdx, waitSnap, ran, fut, joined, spurious, log, exit>>
\* the body of the task (the check and the append of its report) is not logged: it is composed with the Idle event that follows it
\* (one logged step of the implementation = the two steps RunCheck ; WFin of the specification)
TIdle == /\ IsEvent("Idle")
         /\ WK \in Workers /\ wpc[WK] = "run" /\ status[WK] = "WORKING"
         /\ P!Execute(wtask[WK]) /\ log' = Append(log, wtask[WK])
         /\ P!MarkIdle(WK)
         /\ cvw' = {}
         /\ wpc' = [wpc EXCEPT ![WK] = "top"]
         /\ UNCHANGED <<queue, stop, wtask, cpc, csub, cwaits, waitIdx, waitSnap, joined, spurious, exit>>
TWaitEnter == /\ IsEvent("WaitEnter")
              /\ cpc[1] = "add" /\ csub[1] = NChecks /\ cwaits[1] = 0
              /\ cwaits' = [cwaits EXCEPT ![1] = @ + 1]
              /\ waitSnap' = [waitSnap EXCEPT ![1] = P!Submitted]
              /\ waitIdx' = [waitIdx EXCEPT ![1] = 0]
              /\ cpc' = [cpc EXCEPT ![1] = "w1"]
              /\ UNCHANGED <<queue, status, stop, wtask, cvw, wpc, csub, ran, fut, joined, spurious, log, exit>>
TWaitQueueEmpty == /\ IsEvent("WaitQueueEmpty")
                   /\ cpc[1] \in {"w1", "ws1"} /\ queue = <<>>
                   /\ cpc' = [cpc EXCEPT ![1] = "w2"] /\ waitIdx' = [waitIdx EXCEPT ![1] = 1]
                   /\ UNCHANGED <<queue, status, stop, wtask, cvw, wpc, csub, cwaits, waitSnap, ran, fut, joined, spurious, log, exit>>
TWaitReturn == /\ IsEvent("WaitReturn")
               /\ cpc[1] \in {"w2", "ws2"} /\ status[NW] = "IDLE"
               /\ cpc' = [cpc EXCEPT ![1] = "add"] /\ waitIdx' = [waitIdx EXCEPT ![1] = NW + 1]
               /\ UNCHANGED <<queue, status, stop, wtask, cvw, wpc, csub, cwaits, waitSnap, ran, fut, joined, spurious, log, exit>>
\* the status is computed from the futures once wait() has returned: silent
SStatus == Status /\ UNCHANGED l
TStop == /\ IsEvent("Stop")
         /\ cpc[1] = "add" /\ ~stop /\ exit # "running"
         /\ stop' = TRUE
         /\ cpc' = [cpc EXCEPT ![1] = "join"]
         /\ UNCHANGED <<queue, status, wtask, cvw, wpc, csub, cwaits, waitIdx, waitSnap, ran, fut, joined, spurious, log, exit>>
TWorkerExit == /\ IsEvent("WorkerExit")
               /\ WK \in Workers /\ CanTop(WK) /\ stop /\ queue = <<>>
               /\ wpc' = [wpc EXCEPT ![WK] = "exited"]
               /\ UNCHANGED <<queue, status, stop, wtask, cvw, cpc, csub, cwaits, waitIdx, waitSnap, ran, fut, joined, spurious, log, exit>>
TJoined == /\ IsEvent("Joined")
           /\ cpc[1] = "join" /\ \A w \in Workers : wpc[w] = "exited"
           /\ joined' = Workers
           /\ cpc' = [cpc EXCEPT ![1] = "end"]
           /\ UNCHANGED <<queue, status, stop, wtask, cvw, wpc, csub, cwaits, waitIdx, waitSnap, ran, fut, spurious, log, exit>>
TLog == /\ IsEvent("Log") /\ exit # "running"
        /\ Ev.n = Len(log) /\ Ev.distinct = 1
        /\ UNCHANGED vars
TExit == /\ IsEvent("Exit") /\ exit # "running"
         /\ (Ev.rc = 0) = (exit = "success")
         /\ UNCHANGED vars
TraceNext == TEnqueue \/ TDequeue \/ TIdle \/ TWaitEnter \/ TWaitQueueEmpty \/ TWaitReturn \/ SStatus
             \/ TStop \/ TWorkerExit \/ TJoined \/ TLog \/ TExit
TraceSpec == TraceInit /\ [][TraceNext]_tvars
=============================================================================

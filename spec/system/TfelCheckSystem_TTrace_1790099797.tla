---- MODULE TfelCheckSystem_TTrace_1790099797 ----
EXTENDS Sequences, TLCExt, Toolbox, Naturals, TLC, TfelCheckSystem

_expression ==
    LET TfelCheckSystem_TEExpression == INSTANCE TfelCheckSystem_TEExpression
    IN TfelCheckSystem_TEExpression!expression
----

_trace ==
    LET TfelCheckSystem_TETrace == INSTANCE TfelCheckSystem_TETrace
    IN TfelCheckSystem_TETrace!trace
----

_inv ==
    ~(
        TLCGet("level") = Len(_TETrace)
        /\
        waitSnap = (<<{}>>)
        /\
        spurious = (0)
        /\
        waitIdx = (<<0>>)
        /\
        fut = (<<"pending", "pending", "pending">>)
        /\
        log = (<<>>)
        /\
        cvw = ({})
        /\
        joined = ({})
        /\
        wpc = (<<"top", "top">>)
        /\
        exit = ("success")
        /\
        cwaits = (<<0>>)
        /\
        csub = (<<3>>)
        /\
        stop = (FALSE)
        /\
        cpc = (<<"add">>)
        /\
        ran = (<<0, 0, 0>>)
        /\
        queue = (<<1, 2, 3>>)
        /\
        wtask = (<<0, 0>>)
        /\
        status = (<<"IDLE", "IDLE">>)
    )
----

_init ==
    /\ exit = _TETrace[1].exit
    /\ ran = _TETrace[1].ran
    /\ cwaits = _TETrace[1].cwaits
    /\ waitSnap = _TETrace[1].waitSnap
    /\ log = _TETrace[1].log
    /\ cvw = _TETrace[1].cvw
    /\ wtask = _TETrace[1].wtask
    /\ stop = _TETrace[1].stop
    /\ spurious = _TETrace[1].spurious
    /\ queue = _TETrace[1].queue
    /\ joined = _TETrace[1].joined
    /\ fut = _TETrace[1].fut
    /\ waitIdx = _TETrace[1].waitIdx
    /\ cpc = _TETrace[1].cpc
    /\ csub = _TETrace[1].csub
    /\ status = _TETrace[1].status
    /\ wpc = _TETrace[1].wpc
----

_next ==
    /\ \E i,j \in DOMAIN _TETrace:
        /\ \/ /\ j = i + 1
              /\ i = TLCGet("level")
        /\ exit  = _TETrace[i].exit
        /\ exit' = _TETrace[j].exit
        /\ ran  = _TETrace[i].ran
        /\ ran' = _TETrace[j].ran
        /\ cwaits  = _TETrace[i].cwaits
        /\ cwaits' = _TETrace[j].cwaits
        /\ waitSnap  = _TETrace[i].waitSnap
        /\ waitSnap' = _TETrace[j].waitSnap
        /\ log  = _TETrace[i].log
        /\ log' = _TETrace[j].log
        /\ cvw  = _TETrace[i].cvw
        /\ cvw' = _TETrace[j].cvw
        /\ wtask  = _TETrace[i].wtask
        /\ wtask' = _TETrace[j].wtask
        /\ stop  = _TETrace[i].stop
        /\ stop' = _TETrace[j].stop
        /\ spurious  = _TETrace[i].spurious
        /\ spurious' = _TETrace[j].spurious
        /\ queue  = _TETrace[i].queue
        /\ queue' = _TETrace[j].queue
        /\ joined  = _TETrace[i].joined
        /\ joined' = _TETrace[j].joined
        /\ fut  = _TETrace[i].fut
        /\ fut' = _TETrace[j].fut
        /\ waitIdx  = _TETrace[i].waitIdx
        /\ waitIdx' = _TETrace[j].waitIdx
        /\ cpc  = _TETrace[i].cpc
        /\ cpc' = _TETrace[j].cpc
        /\ csub  = _TETrace[i].csub
        /\ csub' = _TETrace[j].csub
        /\ status  = _TETrace[i].status
        /\ status' = _TETrace[j].status
        /\ wpc  = _TETrace[i].wpc
        /\ wpc' = _TETrace[j].wpc

\* Uncomment the ASSUME below to write the states of the error trace
\* to the given file in Json format. Note that you can pass any tuple
\* to `JsonSerialize`. For example, a sub-sequence of _TETrace.
    \* ASSUME
    \*     LET J == INSTANCE Json
    \*         IN J!JsonSerialize("TfelCheckSystem_TTrace_1790099797.json", _TETrace)

=============================================================================

 Note that you can extract this module `TfelCheckSystem_TEExpression`
  to a dedicated file to reuse `expression` (the module in the 
  dedicated `TfelCheckSystem_TEExpression.tla` file takes precedence 
  over the module `TfelCheckSystem_TEExpression` below).

---- MODULE TfelCheckSystem_TEExpression ----
EXTENDS Sequences, TLCExt, Toolbox, Naturals, TLC, TfelCheckSystem

expression == 
    [
        \* To hide variables of the `TfelCheckSystem` spec from the error trace,
        \* remove the variables below.  The trace will be written in the order
        \* of the fields of this record.
        exit |-> exit
        ,ran |-> ran
        ,cwaits |-> cwaits
        ,waitSnap |-> waitSnap
        ,log |-> log
        ,cvw |-> cvw
        ,wtask |-> wtask
        ,stop |-> stop
        ,spurious |-> spurious
        ,queue |-> queue
        ,joined |-> joined
        ,fut |-> fut
        ,waitIdx |-> waitIdx
        ,cpc |-> cpc
        ,csub |-> csub
        ,status |-> status
        ,wpc |-> wpc
        
        \* Put additional constant-, state-, and action-level expressions here:
        \* ,_stateNumber |-> _TEPosition
        \* ,_exitUnchanged |-> exit = exit'
        
        \* Format the `exit` variable as Json value.
        \* ,_exitJson |->
        \*     LET J == INSTANCE Json
        \*     IN J!ToJson(exit)
        
        \* Lastly, you may build expressions over arbitrary sets of states by
        \* leveraging the _TETrace operator.  For example, this is how to
        \* count the number of times a spec variable changed up to the current
        \* state in the trace.
        \* ,_exitModCount |->
        \*     LET F[s \in DOMAIN _TETrace] ==
        \*         IF s = 1 THEN 0
        \*         ELSE IF _TETrace[s].exit # _TETrace[s-1].exit
        \*             THEN 1 + F[s-1] ELSE F[s-1]
        \*     IN F[_TEPosition - 1]
    ]

=============================================================================



Parsing and semantic processing can take forever if the trace below is long.
 In this case, it is advised to uncomment the module below to deserialize the
 trace from a generated binary file.

\*
\*---- MODULE TfelCheckSystem_TETrace ----
\*EXTENDS IOUtils, TLC, TfelCheckSystem
\*
\*trace == IODeserialize("TfelCheckSystem_TTrace_1790099797.bin", TRUE)
\*
\*=============================================================================
\*

---- MODULE TfelCheckSystem_TETrace ----
EXTENDS TLC, TfelCheckSystem

trace == 
    <<
    ([waitSnap |-> <<{}>>,spurious |-> 0,waitIdx |-> <<0>>,fut |-> <<"pending", "pending", "pending">>,log |-> <<>>,cvw |-> {},joined |-> {},wpc |-> <<"top", "top">>,exit |-> "running",cwaits |-> <<0>>,csub |-> <<0>>,stop |-> FALSE,cpc |-> <<"add">>,ran |-> <<0, 0, 0>>,queue |-> <<>>,wtask |-> <<0, 0>>,status |-> <<"IDLE", "IDLE">>]),
    ([waitSnap |-> <<{}>>,spurious |-> 0,waitIdx |-> <<0>>,fut |-> <<"pending", "pending", "pending">>,log |-> <<>>,cvw |-> {},joined |-> {},wpc |-> <<"top", "top">>,exit |-> "running",cwaits |-> <<0>>,csub |-> <<1>>,stop |-> FALSE,cpc |-> <<"notify">>,ran |-> <<0, 0, 0>>,queue |-> <<1>>,wtask |-> <<0, 0>>,status |-> <<"IDLE", "IDLE">>]),
    ([waitSnap |-> <<{}>>,spurious |-> 0,waitIdx |-> <<0>>,fut |-> <<"pending", "pending", "pending">>,log |-> <<>>,cvw |-> {},joined |-> {},wpc |-> <<"top", "top">>,exit |-> "running",cwaits |-> <<0>>,csub |-> <<1>>,stop |-> FALSE,cpc |-> <<"add">>,ran |-> <<0, 0, 0>>,queue |-> <<1>>,wtask |-> <<0, 0>>,status |-> <<"IDLE", "IDLE">>]),
    ([waitSnap |-> <<{}>>,spurious |-> 0,waitIdx |-> <<0>>,fut |-> <<"pending", "pending", "pending">>,log |-> <<>>,cvw |-> {},joined |-> {},wpc |-> <<"top", "top">>,exit |-> "running",cwaits |-> <<0>>,csub |-> <<2>>,stop |-> FALSE,cpc |-> <<"notify">>,ran |-> <<0, 0, 0>>,queue |-> <<1, 2>>,wtask |-> <<0, 0>>,status |-> <<"IDLE", "IDLE">>]),
    ([waitSnap |-> <<{}>>,spurious |-> 0,waitIdx |-> <<0>>,fut |-> <<"pending", "pending", "pending">>,log |-> <<>>,cvw |-> {},joined |-> {},wpc |-> <<"top", "top">>,exit |-> "running",cwaits |-> <<0>>,csub |-> <<2>>,stop |-> FALSE,cpc |-> <<"add">>,ran |-> <<0, 0, 0>>,queue |-> <<1, 2>>,wtask |-> <<0, 0>>,status |-> <<"IDLE", "IDLE">>]),
    ([waitSnap |-> <<{}>>,spurious |-> 0,waitIdx |-> <<0>>,fut |-> <<"pending", "pending", "pending">>,log |-> <<>>,cvw |-> {},joined |-> {},wpc |-> <<"top", "top">>,exit |-> "running",cwaits |-> <<0>>,csub |-> <<3>>,stop |-> FALSE,cpc |-> <<"notify">>,ran |-> <<0, 0, 0>>,queue |-> <<1, 2, 3>>,wtask |-> <<0, 0>>,status |-> <<"IDLE", "IDLE">>]),
    ([waitSnap |-> <<{}>>,spurious |-> 0,waitIdx |-> <<0>>,fut |-> <<"pending", "pending", "pending">>,log |-> <<>>,cvw |-> {},joined |-> {},wpc |-> <<"top", "top">>,exit |-> "running",cwaits |-> <<0>>,csub |-> <<3>>,stop |-> FALSE,cpc |-> <<"add">>,ran |-> <<0, 0, 0>>,queue |-> <<1, 2, 3>>,wtask |-> <<0, 0>>,status |-> <<"IDLE", "IDLE">>]),
    ([waitSnap |-> <<{}>>,spurious |-> 0,waitIdx |-> <<0>>,fut |-> <<"pending", "pending", "pending">>,log |-> <<>>,cvw |-> {},joined |-> {},wpc |-> <<"top", "top">>,exit |-> "success",cwaits |-> <<0>>,csub |-> <<3>>,stop |-> FALSE,cpc |-> <<"add">>,ran |-> <<0, 0, 0>>,queue |-> <<1, 2, 3>>,wtask |-> <<0, 0>>,status |-> <<"IDLE", "IDLE">>])
    >>
----


=============================================================================

---- CONFIG TfelCheckSystem_TTrace_1790099797 ----
CONSTANTS
    NChecks = 3
    NW = 2
    Failing = { 2 }
    MaxSpurious = 1
    WaitBeforeStatus = FALSE

INVARIANT
    _inv

CHECK_DEADLOCK
    \* CHECK_DEADLOCK off because of PROPERTY or INVARIANT above.
    FALSE

INIT
    _init

NEXT
    _next

CONSTANT
    _TETrace <- _trace

ALIAS
    _expression
=============================================================================
\* Generated on Tue Sep 22 17:56:50 UTC 2026
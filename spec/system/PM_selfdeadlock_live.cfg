SPECIFICATION FairSpec
CONSTANTS
  T = {t1}
  Extra = {}
  Kinds = {"ok"}
  CheckWaitpid = TRUE
  ExecLocked = TRUE
  MaskCritical = FALSE
PROPERTY Terminates

--------------------------------- MODULE TfelCheck ---------------------------------
(* C52 - tfel-check verdicts are independent of parallelism (tfel-check/src/tfel-check.cxx, TFELCheck::execute).
   Every .check file is one task of a ThreadPool (C29: each task runs exactly once); a task runs its commands
   (ProcessManager, C30) and comparisons, writes its report into a private buffer and finally appends the whole
   buffer to tfel-check.log while holding the mutex log_synchronization; main waits for the pool and exits with
   failure iff some task reported a failure.
   AtomicAppend = TRUE : the buffer is appended in one critical section (the tree as it is);
   AtomicAppend = FALSE: a mutant that appends line by line without the mutex (shows that Contiguous is not vacuous). *)
EXTENDS Integers, Sequences, FiniteSets, TLC
CONSTANTS Checks,        \* the .check files
          Workers,       \* pool threads
          Failing,       \* subset of Checks expected to fail
          AtomicAppend
VARIABLES todo, job, wpc, buf, log, exit
vars == <<todo, job, wpc, buf, log, exit>>
Block(c) == <<<<"begin", c>>, <<"body", c>>, <<"end", c>>>>
Init == /\ todo = Checks /\ job = [w \in Workers |-> "none"] /\ wpc = [w \in Workers |-> "idle"]
        /\ buf = [w \in Workers |-> <<>>] /\ log = <<>> /\ exit = "running"
Take(w) == /\ wpc[w] = "idle" /\ todo # {}
           /\ \E c \in todo : todo' = todo \ {c} /\ job' = [job EXCEPT ![w] = c]
           /\ wpc' = [wpc EXCEPT ![w] = "run"] /\ UNCHANGED <<buf, log, exit>>
\* commands and comparisons: the report goes to the private buffer
Run(w) == /\ wpc[w] = "run"
          /\ buf' = [buf EXCEPT ![w] = Block(job[w])] /\ wpc' = [wpc EXCEPT ![w] = "append"]
          /\ UNCHANGED <<todo, job, log, exit>>
AppendLog(w) ==
             /\ wpc[w] = "append"
             /\ IF AtomicAppend
                THEN log' = log \o buf[w] /\ buf' = [buf EXCEPT ![w] = <<>>] /\ wpc' = [wpc EXCEPT ![w] = "idle"]
                ELSE /\ log' = Append(log, Head(buf[w])) /\ buf' = [buf EXCEPT ![w] = Tail(@)]
                     /\ wpc' = [wpc EXCEPT ![w] = IF Len(buf[w]) = 1 THEN "idle" ELSE "append"]
             /\ UNCHANGED <<todo, job, exit>>
\* pool.wait() returned: every task is done
Exit == /\ exit = "running" /\ todo = {} /\ \A w \in Workers : wpc[w] = "idle"
        /\ exit' = (IF \E i \in 1..Len(log) : log[i][1] = "end" /\ log[i][2] \in Failing THEN "failure" ELSE "success")
        /\ UNCHANGED <<todo, job, wpc, buf, log>>
Finished == exit # "running" /\ UNCHANGED vars
Next == (\E w \in Workers : Take(w) \/ Run(w) \/ AppendLog(w)) \/ Exit \/ Finished
Spec == Init /\ [][Next]_vars
\* ---- C52 ----
\* the log is a concatenation of complete blocks: no interleaving
Contiguous == \A i \in 1..Len(log) :
                 /\ (log[i][1] = "body" => i > 1 /\ log[i - 1] = <<"begin", log[i][2]>>)
                 /\ (log[i][1] = "end" => i > 2 /\ log[i - 1] = <<"body", log[i][2]>>)
AtMostOnce == \A i, j \in 1..Len(log) : (log[i] = log[j] /\ log[i][1] = "begin") => i = j
ExactlyOnce == exit # "running" => \A c \in Checks : Cardinality({i \in 1..Len(log) : log[i] = <<"begin", c>>}) = 1
Verdict == exit # "running" => ((exit = "failure") = (Failing # {}))
=============================================================================

SPECIFICATION Spec
CONSTANTS
  NChecks = 3
  NW = 2
  Failing = {2}
  MaxSpurious = 1
  WaitBeforeStatus = TRUE
INVARIANTS ExactlyOnce Verdict NoBlockWithoutTask AtMostOneBlock PoolInvariants

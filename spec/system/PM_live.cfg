SPECIFICATION FairSpec
CONSTANTS
  T = {t1, t2}
  Extra = {x1}
  Kinds = {"ok", "fail"}
  CheckWaitpid = TRUE
PROPERTY Terminates
CONSTRAINT NoUAFSoFar

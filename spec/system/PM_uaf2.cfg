SPECIFICATION Spec
CONSTANTS
  T = {t1, t2}
  Extra = {x1}
  Kinds = {"ok"}
  CheckWaitpid = TRUE
  ExecLocked = FALSE
  MaskCritical = TRUE
INVARIANTS NoUAF

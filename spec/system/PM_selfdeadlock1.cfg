SPECIFICATION Spec
CONSTANTS
  T = {t1}
  Extra = {}
  Kinds = {"ok"}
  CheckWaitpid = TRUE
  ExecLocked = TRUE
  MaskCritical = FALSE
INVARIANTS NoSelfDeadlock

SPECIFICATION FairSpec
CONSTANTS
  NChecks = 2
  NW = 2
  Failing = {}
  MaxSpurious = 0
  WaitBeforeStatus = TRUE
PROPERTY Terminates

------------------------------ MODULE ThreadPool ------------------------------
(* tfel::system::ThreadPool (src/System/ThreadPool.cxx, include/TFEL/System/ThreadPool.ixx) - C29.

   One action per critical section of the code.  The pool has one mutex `m`, ONE condition variable
   `c` shared by the workers and by wait(), a FIFO `tasks`, one status per worker and a `stop` flag.

     addTask   : [lock; throw if stop; push; unlock]  ;  c.notify_one()
     worker i  : loop { [lock; c.wait(stop \/ queue # <<>>); if stop /\ empty -> return;
                         pop; status[i] := WORKING; c.notify_all(); unlock] ; task() ;
                        [lock; status[i] := IDLE; c.notify_all(); unlock] }
     wait()    : [lock; c.wait(queue empty); for i: c.wait(status[i] = IDLE); unlock]
     ~ThreadPool: [lock; stop := TRUE; unlock] ; c.notify_all() ; join every worker

   Because every critical section is atomic with respect to the others, the mutex is not a variable:
   an action *is* a critical section; `c.wait` releases the mutex, so a blocked thread sits in `cvw`
   between two actions.  notify_one wakes any ONE thread of `cvw` (workers and waiting clients
   alike - that is what sharing `c` means), notify_all wakes all, and a bounded number of spurious
   wake-ups is allowed (C++ permits them).

   Clients(c): submit NT tasks, may call wait() between submissions (at most MaxWaits times); client 1
   finally destroys the pool once every client is done.  Task bodies return a value or throw. *)
EXTENDS Integers, Sequences, FiniteSets, TLC
CONSTANTS NW,          \* number of workers
          NT,          \* tasks submitted by each client
          NC,          \* number of client threads (C29 is stated for NC = 1)
          MaxWaits,    \* calls to wait() per client
          MaxSpurious, \* spurious wake-ups in a behaviour
          Throwing     \* set of task ids whose body throws

Workers == 1..NW
Clients == 1..NC
Tasks   == 1..(NT * NC)
W(i) == <<"w", i>>
C(i) == <<"c", i>>

VARIABLES queue,    \* the FIFO of task ids                        (protected by m)
          status,   \* [Workers -> {"IDLE","WORKING"}]            (protected by m)
          stop,     \* destructor started                          (protected by m)
          wtask,    \* task held by each worker (0 = none)
          cvw,      \* threads blocked in c.wait
          wpc,      \* worker pc: "top" | "sleep" | "run" | "fin" | "exited"
          cpc,      \* client pc: "add" | "notify" | "w1" | "ws1" | "w2" | "ws2" | "done" | "dtor1" | "dtor2" | "join" | "end"
          csub,     \* tasks submitted so far by each client
          cwaits,   \* calls to wait() so far by each client
          waitIdx,  \* loop index of wait()'s second loop
          waitSnap, \* ghost: tasks submitted (by anyone) when the client's wait() was called
          ran,      \* ghost: number of executions of each task
          fut,      \* state of each task's future: "pending" | "value" | "exception"
          joined,   \* workers joined by the destructor
          spurious  \* spurious wake-ups so far
pvars == <<queue, status, stop, wtask>>
vars == <<queue, status, stop, wtask, cvw, wpc, cpc, csub, cwaits, waitIdx, waitSnap, ran, fut, joined, spurious>>

TaskOf(c, k) == (c - 1) * NT + k
Submitted == UNION {{TaskOf(c, k) : k \in 1..csub[c]} : c \in Clients}
Done(t) == fut[t] # "pending"

Init == /\ queue = <<>> /\ status = [w \in Workers |-> "IDLE"] /\ stop = FALSE
        /\ wtask = [w \in Workers |-> 0] /\ cvw = {}
        /\ wpc = [w \in Workers |-> "top"]
        /\ cpc = [c \in Clients |-> "add"] /\ csub = [c \in Clients |-> 0] /\ cwaits = [c \in Clients |-> 0]
        /\ waitIdx = [c \in Clients |-> 0] /\ waitSnap = [c \in Clients |-> {}]
        /\ ran = [t \in Tasks |-> 0] /\ fut = [t \in Tasks |-> "pending"]
        /\ joined = {} /\ spurious = 0

(* ---- state updates of the critical sections (shared with the trace specification) ---- *)
Push(t)     == queue' = Append(queue, t)
PopInto(w)  == /\ queue # <<>>
               /\ wtask' = [wtask EXCEPT ![w] = Head(queue)]
               /\ queue' = Tail(queue)
               /\ status' = [status EXCEPT ![w] = "WORKING"]
Execute(t)  == /\ ran' = [ran EXCEPT ![t] = @ + 1]
               /\ fut' = [fut EXCEPT ![t] = IF t \in Throwing THEN "exception" ELSE "value"]
MarkIdle(w) == status' = [status EXCEPT ![w] = "IDLE"]

(* ---- workers ---- *)
WTop(w) == /\ wpc[w] = "top"
           /\ IF stop \/ queue # <<>>
              THEN IF stop /\ queue = <<>>
                   THEN /\ wpc' = [wpc EXCEPT ![w] = "exited"]
                        /\ UNCHANGED <<queue, status, wtask, cvw>>
                   ELSE /\ PopInto(w)
                        /\ cvw' = {}                                  \* notify_all under the lock
                        /\ wpc' = [wpc EXCEPT ![w] = "run"]
              ELSE /\ cvw' = cvw \cup {W(w)}                           \* c.wait: release m and block
                   /\ wpc' = [wpc EXCEPT ![w] = "sleep"]
                   /\ UNCHANGED <<queue, status, wtask>>
           /\ UNCHANGED <<stop, cpc, csub, cwaits, waitIdx, waitSnap, ran, fut, joined, spurious>>
WWake(w) == /\ wpc[w] = "sleep" /\ W(w) \notin cvw
            /\ wpc' = [wpc EXCEPT ![w] = "top"]
            /\ UNCHANGED <<queue, status, stop, wtask, cvw, cpc, csub, cwaits, waitIdx, waitSnap, ran, fut, joined, spurious>>
WRun(w) == /\ wpc[w] = "run"
           /\ Execute(wtask[w])
           /\ wpc' = [wpc EXCEPT ![w] = "fin"]
           /\ UNCHANGED <<queue, status, stop, wtask, cvw, cpc, csub, cwaits, waitIdx, waitSnap, joined, spurious>>
WFin(w) == /\ wpc[w] = "fin"
           /\ MarkIdle(w)
           /\ cvw' = {}                                               \* notify_all under the lock
           /\ wpc' = [wpc EXCEPT ![w] = "top"]
           /\ UNCHANGED <<queue, stop, wtask, cpc, csub, cwaits, waitIdx, waitSnap, ran, fut, joined, spurious>>

(* ---- clients ---- *)
CAdd(c) == /\ cpc[c] = "add" /\ csub[c] < NT /\ ~stop
           /\ Push(TaskOf(c, csub[c] + 1))
           /\ csub' = [csub EXCEPT ![c] = @ + 1]
           /\ cpc' = [cpc EXCEPT ![c] = "notify"]
           /\ UNCHANGED <<status, stop, wtask, cvw, wpc, cwaits, waitIdx, waitSnap, ran, fut, joined, spurious>>
CNotify(c) == /\ cpc[c] = "notify"                                     \* c.notify_one() after unlock
              /\ \/ cvw = {} /\ cvw' = cvw
                 \/ \E x \in cvw : cvw' = cvw \ {x}
              /\ cpc' = [cpc EXCEPT ![c] = "add"]
              /\ UNCHANGED <<queue, status, stop, wtask, wpc, csub, cwaits, waitIdx, waitSnap, ran, fut, joined, spurious>>
CCallWait(c) == /\ cpc[c] = "add" /\ cwaits[c] < MaxWaits
                /\ cwaits' = [cwaits EXCEPT ![c] = @ + 1]
                /\ waitSnap' = [waitSnap EXCEPT ![c] = Submitted]
                /\ cpc' = [cpc EXCEPT ![c] = "w1"]
                /\ UNCHANGED <<queue, status, stop, wtask, cvw, wpc, csub, waitIdx, ran, fut, joined, spurious>>
CWait1(c) == /\ cpc[c] = "w1"
             /\ IF queue = <<>>
                THEN cpc' = [cpc EXCEPT ![c] = "w2"] /\ waitIdx' = [waitIdx EXCEPT ![c] = 1] /\ cvw' = cvw
                ELSE cvw' = cvw \cup {C(c)} /\ cpc' = [cpc EXCEPT ![c] = "ws1"] /\ waitIdx' = waitIdx
             /\ UNCHANGED <<queue, status, stop, wtask, wpc, csub, cwaits, waitSnap, ran, fut, joined, spurious>>
CWake1(c) == /\ cpc[c] = "ws1" /\ C(c) \notin cvw
             /\ cpc' = [cpc EXCEPT ![c] = "w1"]
             /\ UNCHANGED <<queue, status, stop, wtask, cvw, wpc, csub, cwaits, waitIdx, waitSnap, ran, fut, joined, spurious>>
CWait2(c) == /\ cpc[c] = "w2"
             /\ IF waitIdx[c] > NW
                THEN cpc' = [cpc EXCEPT ![c] = "add"] /\ UNCHANGED <<cvw, waitIdx>>          \* wait() returns
                ELSE IF status[waitIdx[c]] = "IDLE"
                     THEN waitIdx' = [waitIdx EXCEPT ![c] = @ + 1] /\ UNCHANGED <<cvw, cpc>>
                     ELSE cvw' = cvw \cup {C(c)} /\ cpc' = [cpc EXCEPT ![c] = "ws2"] /\ UNCHANGED waitIdx
             /\ UNCHANGED <<queue, status, stop, wtask, wpc, csub, cwaits, waitSnap, ran, fut, joined, spurious>>
CWake2(c) == /\ cpc[c] = "ws2" /\ C(c) \notin cvw
             /\ cpc' = [cpc EXCEPT ![c] = "w2"]
             /\ UNCHANGED <<queue, status, stop, wtask, cvw, wpc, csub, cwaits, waitIdx, waitSnap, ran, fut, joined, spurious>>
CDone(c) == /\ cpc[c] = "add" /\ csub[c] = NT
            /\ cpc' = [cpc EXCEPT ![c] = "done"]
            /\ UNCHANGED <<queue, status, stop, wtask, cvw, wpc, csub, cwaits, waitIdx, waitSnap, ran, fut, joined, spurious>>
(* ---- destructor (client 1, once every client is done) ---- *)
DSetStop == /\ cpc[1] = "done" /\ \A c \in Clients : cpc[c] = "done"
            /\ stop' = TRUE
            /\ cpc' = [cpc EXCEPT ![1] = "dtor2"]
            /\ UNCHANGED <<queue, status, wtask, cvw, wpc, csub, cwaits, waitIdx, waitSnap, ran, fut, joined, spurious>>
DNotifyAll == /\ cpc[1] = "dtor2"
              /\ cvw' = {}
              /\ cpc' = [cpc EXCEPT ![1] = "join"]
              /\ UNCHANGED <<queue, status, stop, wtask, wpc, csub, cwaits, waitIdx, waitSnap, ran, fut, joined, spurious>>
DJoin(w) == /\ cpc[1] = "join" /\ wpc[w] = "exited" /\ w \notin joined
            /\ (\A v \in Workers : v < w => v \in joined)             \* joins in order
            /\ joined' = joined \cup {w}
            /\ cpc' = [cpc EXCEPT ![1] = IF joined' = Workers THEN "end" ELSE "join"]
            /\ UNCHANGED <<queue, status, stop, wtask, cvw, wpc, csub, cwaits, waitIdx, waitSnap, ran, fut, spurious>>
(* ---- the environment: spurious wake-up of one blocked thread ---- *)
Spurious == /\ spurious < MaxSpurious /\ cvw # {}
            /\ \E x \in cvw : cvw' = cvw \ {x}
            /\ spurious' = spurious + 1
            /\ UNCHANGED <<queue, status, stop, wtask, wpc, cpc, csub, cwaits, waitIdx, waitSnap, ran, fut, joined>>

WorkerNext(w) == WTop(w) \/ WWake(w) \/ WRun(w) \/ WFin(w)
ClientNext(c) == CAdd(c) \/ CNotify(c) \/ CCallWait(c) \/ CWait1(c) \/ CWake1(c) \/ CWait2(c) \/ CWake2(c) \/ CDone(c)
DtorNext == DSetStop \/ DNotifyAll \/ \E w \in Workers : DJoin(w)
\* the pool is destroyed: nothing more happens (kept as an explicit step so that TLC's deadlock check stays
\* meaningful: any other state without successor is a real deadlock, e.g. a lost wake-up)
Finished == cpc[1] = "end" /\ UNCHANGED vars
Next == (\E w \in Workers : WorkerNext(w)) \/ (\E c \in Clients : ClientNext(c)) \/ DtorNext \/ Spurious \/ Finished
Spec == Init /\ [][Next]_vars
\* weak fairness of every thread's steps (not of the spurious wake-ups, which nobody can rely on)
FairSpec == /\ Spec
            /\ \A w \in Workers : WF_vars(WTop(w)) /\ WF_vars(WWake(w)) /\ WF_vars(WRun(w)) /\ WF_vars(WFin(w))
            /\ \A c \in Clients : /\ WF_vars(CAdd(c)) /\ WF_vars(CNotify(c)) /\ WF_vars(CWait1(c)) /\ WF_vars(CWake1(c))
                                  /\ WF_vars(CWait2(c)) /\ WF_vars(CWake2(c)) /\ WF_vars(CDone(c))
            /\ WF_vars(DSetStop) /\ WF_vars(DNotifyAll) /\ \A w \in Workers : WF_vars(DJoin(w))

(* ---- properties (C29) ---- *)
TypeOK == /\ status \in [Workers -> {"IDLE", "WORKING"}] /\ stop \in BOOLEAN
          /\ \A i \in 1..Len(queue) : queue[i] \in Tasks
          /\ ran \in [Tasks -> 0..2] /\ fut \in [Tasks -> {"pending", "value", "exception"}]
\* each task added to the pool runs at most once at any time ...
AtMostOnce == \A t \in Tasks : ran[t] <= 1
\* ... and exactly once when the destructor returns (it runs all queued tasks before joining)
DtorDrains == cpc[1] = "end" => \A t \in Submitted : ran[t] = 1
\* a task is in exactly one place: not yet submitted, queued, held by a worker, or done
NoLoss == LET queued == {queue[i] : i \in 1..Len(queue)}
              held == {wtask[w] : w \in {v \in Workers : wpc[v] = "run"}}
          IN  \A t \in Submitted : Done(t) \/ t \in queued \/ t \in held
\* the future yields the task's result or the exception it threw
FutureFaithful == \A t \in Tasks : Done(t) => fut[t] = (IF t \in Throwing THEN "exception" ELSE "value")
\* wait() returns only after every task submitted before the call has finished
WaitComplete == \A c \in Clients : (cpc[c] = "add" /\ cwaits[c] > 0 /\ waitIdx[c] > NW) =>
                                      \A t \in waitSnap[c] : Done(t)
\* liveness under fairness: every submitted task finishes, wait() returns, the destructor returns
AllDone == <>(cpc[1] = "end")
EveryTaskRuns == \A t \in Tasks : (t \in Submitted) ~> Done(t)
WaitReturns == \A c \in Clients : (cpc[c] = "w1") ~> (cpc[c] = "add")
=============================================================================

SPECIFICATION FairSpec
CONSTANTS
  NW = 2
  NT = 2
  NC = 1
  MaxWaits = 1
  MaxSpurious = 0
  Throwing = {2}
PROPERTIES AllDone EveryTaskRuns WaitReturns

---------------------------- MODULE ProcessManager ----------------------------
(* tfel::system::ProcessManager::execute and the SIGCHLD path through SignalManager - C30 (and C52).
   (src/System/ProcessManager.cxx, src/System/SignalManager.cxx)

   Each thread t owns one ProcessManager and runs one command with it, as tfel-check's TestLauncher
   does for every @Command:

     ProcessManager()   : registerHandler: under `callbacksAccess`, insert the SIGCHLD callback   (CtorLock, Ctor)
     execute(cmd)       : createProcess (fork/exec, isRunning := true, under `processesAccess`
                          with all signals blocked)                                           (Fork)
                          wait(pid): findProcess under `processesAccess`                      (FindLock, FindUnlock)
                                     if (!isRunning) return;                                 (Test)
                                     waitpid(pid, &status, 0);                               (Waitpid)
                                     setProcessExitStatus(p, status);                        (Set)
                          findProcess; throw unless exited with value 0                      (Verdict)
     ~ProcessManager()  : all signals blocked; removeHandler erases and deletes the callback under
                          `callbacksAccess`, then the object dies                            (Remove, Destroy)

   SIGCHLD is process-directed: the kernel runs SignalManager::treatAction on ANY thread that does not
   block it (Deliver picks the host; the host's own code is suspended until the handler returns).
   treatAction locks `callbacksAccess` and copies the callbacks of the signal (Snap), then executes every
   one of them (Exec) - each is ProcessManager::sigChildHandler of some manager, which under
   `processesAccess` does waitpid(WNOHANG) on its running children and records their exit status.
   If the host was blocked in waitpid, that call returns -1 (EINTR) afterwards.  A waitpid on a child
   that the handler already reaped returns -1 (ECHILD); in both cases `status` is left uninitialised.

   Both mutexes are ordinary (non signal-safe) mutexes: a handler that needs a mutex held by the code
   it interrupted waits forever (SelfDeadlock).

   The constants select the tree that is modelled:
   CheckWaitpid = FALSE : pinned wait() ignores waitpid's return value.
                  TRUE  : repaired wait() - retry on EINTR, use `status` only if waitpid returned the pid.
   ExecLocked   = FALSE : pinned treatAction releases `callbacksAccess` after the copy and executes the
                          snapshot unlocked: ~ProcessManager of another thread can delete a callback
                          that is still to be executed (use after free).
                  TRUE  : repaired treatAction keeps the lock until the last callback returned and skips
                          callbacks that are no longer registered.
   MaskCritical = FALSE : pinned findProcess / registerHandler hold their mutex with signals enabled.
                  TRUE  : repaired: all signals are blocked on the thread while it holds the mutex. *)
EXTENDS Integers, FiniteSets, TLC
CONSTANTS T,             \* threads that own a manager (= managers = commands)
          Extra,         \* threads without manager (main thread, idle pool workers) that can host a handler
          Kinds,         \* how a child ends: subset of {"ok", "fail", "signal"}
          CheckWaitpid, ExecLocked, MaskCritical
Hosts == T \cup Extra
VARIABLES child,    \* [T -> "none" | "running" | "zombie" | "reaped"]
          ckind,    \* [T -> Kinds]  the way the child of t terminates
          mgr,      \* [T -> "unborn" | "alive" | "destroyed"]
          reg,      \* [T -> BOOLEAN] callback of t present in the SignalManager map
          running,  \* [T -> BOOLEAN] Process::isRunning
          result,   \* [T -> "unset" | Kinds | "garbage"]  Process::exitStatus/exitValue
          wpc,      \* pc of thread t
          lst,      \* [T -> "uninit" | Kinds] the local `status` of wait()
          verdict,  \* [T -> "none" | Kinds | "garbage"] what execute() reported
          pending,  \* a SIGCHLD is pending for the process
          hact,     \* hosts currently inside treatAction (SIGCHLD is masked only on the host itself)
          hsnap,    \* [Hosts -> SUBSET T] callbacks still to execute from the host's snapshot
          hwait,    \* hosts that entered treatAction and have not yet locked callbacksAccess / copied the callbacks
          cbl,      \* holder of callbacksAccess: {} (free), {<<"code", t>>} (registerHandler) or {<<"handler", h>>}
          pl,       \* holder of processesAccess: {} (free) or {t}, the thread inside findProcess (all other critical
                    \* sections on it are single steps of this model)
          uaf       \* a deleted callback was executed (use after free)
vars == <<child, ckind, mgr, reg, running, result, wpc, lst, verdict, pending, hact, hsnap, hwait, cbl, pl, uaf>>

Init == /\ child = [t \in T |-> "none"] /\ ckind \in [T -> Kinds] /\ mgr = [t \in T |-> "unborn"]
        /\ reg = [t \in T |-> FALSE] /\ running = [t \in T |-> FALSE] /\ result = [t \in T |-> "unset"]
        /\ wpc = [t \in T |-> "ctor"] /\ lst = [t \in T |-> "uninit"] /\ verdict = [t \in T |-> "none"]
        /\ pending = FALSE /\ hact = {} /\ hsnap = [h \in Hosts |-> {}] /\ uaf = FALSE
        /\ hwait = {} /\ cbl = {} /\ pl = {}

\* a thread executes its own code only while it does not host the signal handler
Runs(t) == t \notin hact

\* registerHandler: lock callbacksAccess ...
CtorLock(t) == /\ wpc[t] = "ctor" /\ Runs(t) /\ cbl = {}
               /\ cbl' = {<<"code", t>>} /\ wpc' = [wpc EXCEPT ![t] = "ctor2"]
               /\ UNCHANGED <<child, ckind, mgr, reg, running, result, lst, verdict, pending, hact, hsnap, hwait, pl, uaf>>
\* ... insert the callback, unlock
Ctor(t) == /\ wpc[t] = "ctor2" /\ Runs(t)
           /\ mgr' = [mgr EXCEPT ![t] = "alive"] /\ reg' = [reg EXCEPT ![t] = TRUE]
           /\ cbl' = {} /\ wpc' = [wpc EXCEPT ![t] = "fork"]
           /\ UNCHANGED <<child, ckind, running, result, lst, verdict, pending, hact, hsnap, hwait, pl, uaf>>
\* createProcess: all signals blocked, the process is recorded under processesAccess
Fork(t) == /\ wpc[t] = "fork" /\ Runs(t) /\ pl = {}
           /\ child' = [child EXCEPT ![t] = "running"] /\ running' = [running EXCEPT ![t] = TRUE]
           /\ wpc' = [wpc EXCEPT ![t] = "find"]
           /\ UNCHANGED <<ckind, mgr, reg, result, lst, verdict, pending, hact, hsnap, hwait, cbl, pl, uaf>>
\* wait() -> findProcess: lock processesAccess, search, unlock
FindLock(t) == /\ wpc[t] = "find" /\ Runs(t) /\ pl = {}
               /\ pl' = {t} /\ wpc' = [wpc EXCEPT ![t] = "found"]
               /\ UNCHANGED <<child, ckind, mgr, reg, running, result, lst, verdict, pending, hact, hsnap, hwait, cbl, uaf>>
FindUnlock(t) == /\ wpc[t] = "found" /\ Runs(t)
                 /\ pl' = {} /\ wpc' = [wpc EXCEPT ![t] = "test"]
                 /\ UNCHANGED <<child, ckind, mgr, reg, running, result, lst, verdict, pending, hact, hsnap, hwait, cbl, uaf>>
\* the child terminates: it becomes a zombie and the kernel raises SIGCHLD
ChildExit(t) == /\ child[t] = "running"
                /\ child' = [child EXCEPT ![t] = "zombie"] /\ pending' = TRUE
                /\ UNCHANGED <<ckind, mgr, reg, running, result, wpc, lst, verdict, hact, hsnap, hwait, cbl, pl, uaf>>
\* the kernel delivers SIGCHLD to some thread that does not block it: the destructor blocks all signals
\* between "remove" and "destroy", a host blocks them while it runs the handler (sa_mask is full) and the
\* repaired critical sections block them as well
CanHost(h) == /\ h \notin hact
              /\ h \in T => /\ wpc[h] \notin {"remove", "destroy", "done"}
                            /\ MaskCritical => wpc[h] \notin {"ctor2", "found"}
Deliver(h) == /\ pending /\ CanHost(h)
              /\ pending' = FALSE /\ hact' = hact \cup {h} /\ hwait' = hwait \cup {h}
              /\ UNCHANGED <<child, ckind, mgr, reg, running, result, wpc, lst, verdict, hsnap, cbl, pl, uaf>>
\* treatAction locks callbacksAccess and copies the callbacks of SIGCHLD
Snap(h) == /\ h \in hwait /\ cbl = {}
           /\ hwait' = hwait \ {h}
           /\ hsnap' = [hsnap EXCEPT ![h] = {m \in T : reg[m]}]
           /\ cbl' = IF ExecLocked THEN {<<"handler", h>>} ELSE {}
           /\ UNCHANGED <<child, ckind, mgr, reg, running, result, wpc, lst, verdict, pending, hact, pl, uaf>>
\* sigChildHandler of manager m, under processesAccess: waitpid(WNOHANG) + setProcessExitStatus
Reap(m) == IF running[m] /\ child[m] = "zombie"
           THEN /\ child' = [child EXCEPT ![m] = "reaped"]
                /\ running' = [running EXCEPT ![m] = FALSE]
                /\ result' = [result EXCEPT ![m] = ckind[m]]
           ELSE UNCHANGED <<child, running, result>>
\* one callback of host h's snapshot
Exec(h, m) == /\ h \in hact \ hwait /\ m \in hsnap[h]
              /\ hsnap' = [hsnap EXCEPT ![h] = @ \ {m}]
              /\ IF mgr[m] # "alive" \/ ~reg[m]
                 THEN /\ uaf' = (uaf \/ ~ExecLocked)      \* repaired: skipped, pinned: executed although deleted
                      /\ UNCHANGED <<child, running, result>>
                 ELSE /\ pl = {}                           \* the handler needs processesAccess
                      /\ uaf' = uaf /\ Reap(m)
              /\ UNCHANGED <<ckind, mgr, reg, wpc, lst, verdict, pending, hact, hwait, cbl, pl>>
\* treatAction returns; if the host was blocked in waitpid the system call fails with EINTR
HDone(h) == /\ h \in hact \ hwait /\ hsnap[h] = {}
            /\ hact' = hact \ {h}
            /\ cbl' = IF ExecLocked THEN {} ELSE cbl
            /\ IF h \in T /\ wpc[h] = "waitpid"
               THEN wpc' = [wpc EXCEPT ![h] =
                              IF CheckWaitpid
                              THEN "waitpid"                                      \* repaired: retry on EINTR
                              ELSE "set"]                                         \* pinned: status unread
               ELSE wpc' = wpc
            /\ UNCHANGED <<child, ckind, mgr, reg, running, result, lst, verdict, pending, hsnap, hwait, pl, uaf>>
Test(t) == /\ wpc[t] = "test" /\ Runs(t)
           /\ wpc' = [wpc EXCEPT ![t] = IF running[t] THEN "waitpid" ELSE "verdict"]
           /\ UNCHANGED <<child, ckind, mgr, reg, running, result, lst, verdict, pending, hact, hsnap, hwait, cbl, pl, uaf>>
\* waitpid(pid, &status, 0) completes: the child is a zombie (returns pid) or was already reaped (ECHILD)
Waitpid(t) == /\ wpc[t] = "waitpid" /\ Runs(t) /\ child[t] \in {"zombie", "reaped"}
              /\ IF child[t] = "zombie"
                 THEN /\ child' = [child EXCEPT ![t] = "reaped"] /\ lst' = [lst EXCEPT ![t] = ckind[t]]
                      /\ wpc' = [wpc EXCEPT ![t] = "set"]
                 ELSE /\ UNCHANGED <<child, lst>>
                      /\ wpc' = [wpc EXCEPT ![t] = IF CheckWaitpid THEN "verdict" ELSE "set"]
              /\ UNCHANGED <<ckind, mgr, reg, running, result, verdict, pending, hact, hsnap, hwait, cbl, pl, uaf>>
\* setProcessExitStatus(p, status): an uninitialised status is an arbitrary value
Set(t) == /\ wpc[t] = "set" /\ Runs(t)
          /\ IF lst[t] = "uninit"
             THEN \E g \in Kinds \cup {"garbage"} : result' = [result EXCEPT ![t] = g]
             ELSE result' = [result EXCEPT ![t] = lst[t]]
          /\ running' = [running EXCEPT ![t] = FALSE]
          /\ wpc' = [wpc EXCEPT ![t] = "verdict"]
          /\ UNCHANGED <<child, ckind, mgr, reg, lst, verdict, pending, hact, hsnap, hwait, cbl, pl, uaf>>
\* execute() looks the process up again (findProcess, one step here) and reports
Verdict(t) == /\ wpc[t] = "verdict" /\ Runs(t) /\ pl = {}
              /\ verdict' = [verdict EXCEPT ![t] = result[t]]
              /\ wpc' = [wpc EXCEPT ![t] = "remove"]
              /\ UNCHANGED <<child, ckind, mgr, reg, running, result, lst, pending, hact, hsnap, hwait, cbl, pl, uaf>>
\* ~ProcessManager: signals blocked on this thread, removeHandler deletes the callback under callbacksAccess
Remove(t) == /\ wpc[t] = "remove" /\ Runs(t) /\ cbl = {}
             /\ reg' = [reg EXCEPT ![t] = FALSE]
             /\ wpc' = [wpc EXCEPT ![t] = "destroy"]
             /\ UNCHANGED <<child, ckind, mgr, running, result, lst, verdict, pending, hact, hsnap, hwait, cbl, pl, uaf>>
Destroy(t) == /\ wpc[t] = "destroy" /\ Runs(t)
              /\ mgr' = [mgr EXCEPT ![t] = "destroyed"]
              /\ wpc' = [wpc EXCEPT ![t] = "done"]
              /\ UNCHANGED <<child, ckind, reg, running, result, lst, verdict, pending, hact, hsnap, hwait, cbl, pl, uaf>>
Finished == (\A t \in T : wpc[t] = "done") /\ hact = {} /\ UNCHANGED vars

Next == \/ \E t \in T : CtorLock(t) \/ Ctor(t) \/ Fork(t) \/ FindLock(t) \/ FindUnlock(t) \/ ChildExit(t) \/ Test(t)
                        \/ Waitpid(t) \/ Set(t) \/ Verdict(t) \/ Remove(t) \/ Destroy(t)
        \/ \E h \in Hosts : Deliver(h) \/ Snap(h) \/ HDone(h) \/ \E m \in T : Exec(h, m)
        \/ Finished
Spec == Init /\ [][Next]_vars
FairSpec == Spec /\ WF_vars(Next)

TypeOK == /\ child \in [T -> {"none", "running", "zombie", "reaped"}]
          /\ wpc \in [T -> {"ctor", "ctor2", "fork", "find", "found", "test", "waitpid", "set", "verdict", "remove",
                            "destroy", "done"}]
          /\ hact \subseteq Hosts /\ hwait \subseteq hact /\ hsnap \in [Hosts -> SUBSET T]
          /\ pl \in SUBSET T /\ Cardinality(pl) <= 1 /\ Cardinality(cbl) <= 1
\* C30: execute() succeeds exactly when the child exited with status 0; a signal death is reported as such
Faithful == \A t \in T : wpc[t] \in {"remove", "destroy", "done"} => verdict[t] = ckind[t]
\* the handler never runs a callback whose manager is being or has been destroyed
NoUAF == ~uaf
\* the handler never runs on a thread whose interrupted code holds a mutex that the handler needs
NoSelfDeadlock == \A h \in hact : h \notin pl /\ <<"code", h>> \notin cbl
\* every command is eventually accounted for
Terminates == <>(\A t \in T : wpc[t] = "done")
\* behaviours after a use-after-free are meaningless: Faithful is judged on the others
NoUAFSoFar == ~uaf
=============================================================================

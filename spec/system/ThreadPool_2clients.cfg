SPECIFICATION FairSpec
CONSTANTS
  NW = 1
  NT = 1
  NC = 2
  MaxWaits = 1
  MaxSpurious = 0
  Throwing = {}
PROPERTIES AllDone

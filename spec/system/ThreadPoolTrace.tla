--------------------------- MODULE ThreadPoolTrace ---------------------------
(* Trace validation of the real tfel::system::ThreadPool against ThreadPool.tla (C29).

   Events (hooks under the pool's mutex unless stated; a = first argument, b = second):
     Reset                  (harness) a new pool is constructed: back to Init
     Enqueue(a = queue length after push)            addTask, under m
     Dequeue(a = worker, b = queue length after pop) worker, under m
     TaskStart(a = task) / TaskEnd(a = task, b = 1 if the body throws)   (harness, inside the task body)
     Idle(a = worker)                                worker, under m
     WaitEnter / WaitQueueEmpty / WaitReturn         wait(), under m
     Stop                                            destructor, under m
     WorkerExit(a = worker)                          worker, under m
     Joined                                          destructor, after the joins
     FutureGet(a = task, b = 0 value | 1 exception, c = value)           (harness)
   The single client submits tasks 1, 2, ... in order, so the k-th Enqueue is task k.
   Condition-variable traffic is not logged: C++ allows spurious wake-ups, so a blocked thread may
   always re-test its predicate; the trace actions therefore accept a thread in its "sleep" pc
   wherever the corresponding model action needs "top", and reuse the model's state updates. *)
EXTENDS ThreadPool, TraceIO

TraceThrowing == {t \in 1..(NT * NC) : t % 5 = 3}
Value(t) == 7 * t + 1

VARIABLE started   \* tasks whose body was entered
tvars == <<vars, l, started>>

ResetAll == /\ queue' = <<>> /\ status' = [w \in Workers |-> "IDLE"] /\ stop' = FALSE
            /\ wtask' = [w \in Workers |-> 0] /\ cvw' = {}
            /\ wpc' = [w \in Workers |-> "top"]
            /\ cpc' = [c \in Clients |-> "add"] /\ csub' = [c \in Clients |-> 0] /\ cwaits' = [c \in Clients |-> 0]
            /\ waitIdx' = [c \in Clients |-> 0] /\ waitSnap' = [c \in Clients |-> {}]
            /\ ran' = [t \in Tasks |-> 0] /\ fut' = [t \in Tasks |-> "pending"]
            /\ joined' = {} /\ spurious' = 0 /\ started' = {}
TraceInit == Init /\ l = 1 /\ started = {}

WK == Ev.a + 1
CanTop(w) == wpc[w] \in {"top", "sleep"}

TReset == IsEvent("Reset") /\ Ev.a = NW /\ ResetAll
TEnqueue == /\ IsEvent("Enqueue")
            /\ cpc[1] = "add" /\ csub[1] < NT /\ ~stop
            /\ Push(csub[1] + 1)
            /\ csub' = [csub EXCEPT ![1] = @ + 1]
            /\ Len(queue') = Ev.a
            /\ UNCHANGED <<status, stop, wtask, cvw, wpc, cpc, cwaits, waitIdx, waitSnap, ran, fut, joined, spurious, started>>
TDequeue == /\ IsEvent("Dequeue")
            /\ WK \in Workers /\ CanTop(WK) /\ status[WK] = "IDLE"
            /\ PopInto(WK)
            /\ Len(queue') = Ev.b
            /\ cvw' = {}
            /\ wpc' = [wpc EXCEPT ![WK] = "run"]
            /\ UNCHANGED <<stop, cpc, csub, cwaits, waitIdx, waitSnap, ran, fut, joined, spurious, started>>
TTaskStart == /\ IsEvent("TaskStart")
              /\ \E w \in Workers : wtask[w] = Ev.a /\ wpc[w] = "run"
              /\ started' = started \cup {Ev.a}
              /\ UNCHANGED vars
TTaskEnd == /\ IsEvent("TaskEnd")
            /\ Ev.a \in started
            /\ (Ev.b = 1) <=> (Ev.a \in Throwing)
            /\ \E w \in Workers : /\ wtask[w] = Ev.a /\ wpc[w] = "run"
                                  /\ Execute(Ev.a)
                                  /\ wpc' = [wpc EXCEPT ![w] = "fin"]
            /\ UNCHANGED <<queue, status, stop, wtask, cvw, cpc, csub, cwaits, waitIdx, waitSnap, joined, spurious, started>>
TIdle == /\ IsEvent("Idle")
         /\ WK \in Workers /\ wpc[WK] = "fin" /\ status[WK] = "WORKING"
         /\ MarkIdle(WK)
         /\ cvw' = {}
         /\ wpc' = [wpc EXCEPT ![WK] = "top"]
         /\ UNCHANGED <<queue, stop, wtask, cpc, csub, cwaits, waitIdx, waitSnap, ran, fut, joined, spurious, started>>
TWaitEnter == /\ IsEvent("WaitEnter")
              /\ cpc[1] = "add"
              /\ cwaits' = [cwaits EXCEPT ![1] = @ + 1]
              /\ waitSnap' = [waitSnap EXCEPT ![1] = Submitted]
              /\ waitIdx' = [waitIdx EXCEPT ![1] = 0]
              /\ cpc' = [cpc EXCEPT ![1] = "w1"]
              /\ UNCHANGED <<queue, status, stop, wtask, cvw, wpc, csub, ran, fut, joined, spurious, started>>
TWaitQueueEmpty == /\ IsEvent("WaitQueueEmpty")
                   /\ cpc[1] \in {"w1", "ws1"}
                   /\ queue = <<>>                      \* the predicate of the first c.wait
                   /\ cpc' = [cpc EXCEPT ![1] = "w2"] /\ waitIdx' = [waitIdx EXCEPT ![1] = 1]
                   /\ UNCHANGED <<queue, status, stop, wtask, cvw, wpc, csub, cwaits, waitSnap, ran, fut, joined, spurious, started>>
TWaitReturn == /\ IsEvent("WaitReturn")
               /\ cpc[1] \in {"w2", "ws2"}
               /\ status[NW] = "IDLE"                   \* the predicate of the last c.wait, same lock hold
               /\ cpc' = [cpc EXCEPT ![1] = "add"] /\ waitIdx' = [waitIdx EXCEPT ![1] = NW + 1]
               /\ UNCHANGED <<queue, status, stop, wtask, cvw, wpc, csub, cwaits, waitSnap, ran, fut, joined, spurious, started>>
TStop == /\ IsEvent("Stop")
         /\ cpc[1] = "add" /\ ~stop
         /\ stop' = TRUE
         /\ cpc' = [cpc EXCEPT ![1] = "join"]
         /\ UNCHANGED <<queue, status, wtask, cvw, wpc, csub, cwaits, waitIdx, waitSnap, ran, fut, joined, spurious, started>>
TWorkerExit == /\ IsEvent("WorkerExit")
               /\ WK \in Workers /\ CanTop(WK)
               /\ stop /\ queue = <<>>
               /\ wpc' = [wpc EXCEPT ![WK] = "exited"]
               /\ UNCHANGED <<queue, status, stop, wtask, cvw, cpc, csub, cwaits, waitIdx, waitSnap, ran, fut, joined, spurious, started>>
TJoined == /\ IsEvent("Joined")
           /\ cpc[1] = "join" /\ \A w \in Workers : wpc[w] = "exited"
           /\ joined' = Workers
           /\ cpc' = [cpc EXCEPT ![1] = "end"]
           /\ UNCHANGED <<queue, status, stop, wtask, cvw, wpc, csub, cwaits, waitIdx, waitSnap, ran, fut, spurious, started>>
TFutureGet == /\ IsEvent("FutureGet")
              /\ Done(Ev.a)
              /\ fut[Ev.a] = (IF Ev.b = 1 THEN "exception" ELSE "value")
              /\ (Ev.b = 0 => Ev.c = Value(Ev.a))
              /\ UNCHANGED <<vars, started>>
TraceNext == \/ TReset \/ TEnqueue \/ TDequeue \/ TTaskStart \/ TTaskEnd \/ TIdle \/ TWaitEnter \/ TWaitQueueEmpty
             \/ TWaitReturn \/ TStop \/ TWorkerExit \/ TJoined \/ TFutureGet
TraceSpec == TraceInit /\ [][TraceNext]_tvars
\* a task body is never entered twice
StartOnce == \A t \in started : ran[t] <= 1
=============================================================================

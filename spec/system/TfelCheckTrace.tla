------------------------------- MODULE TfelCheckTrace -------------------------------
(* Validation of a real tfel-check.log (and exit status) against the obligations of TfelCheck.tla.
   The driver turns the log into events, in file order:
     Begin(c)        "* beginning of test './c.check'"
     Body(k)         any other report line (k = its kind), belongs to the block that is open
     End(c, ok)      "* end of test './c.check' [SUCCESS | FAILED]"
     Exit(rc, n, fails = checks expected to fail, all = all checks)
   State: the block currently open, the checks already reported, their verdicts. *)
EXTENDS Integers, Sequences, FiniteSets, TLC, TraceIO
VARIABLES open, seen, failed, exited
tvars == <<open, seen, failed, exited, l>>
TraceInit == open = "" /\ seen = {} /\ failed = {} /\ exited = FALSE /\ l = 1
TBegin == /\ IsEvent("Begin") /\ open = "" /\ Ev.c \notin seen        \* no interleaving, each block once
          /\ open' = Ev.c /\ seen' = seen \cup {Ev.c} /\ UNCHANGED <<failed, exited>>
TBody == IsEvent("Body") /\ open # "" /\ UNCHANGED <<open, seen, failed, exited>>
TEnd == /\ IsEvent("End") /\ open = Ev.c
        /\ open' = "" /\ failed' = (IF Ev.ok = 1 THEN failed ELSE failed \cup {Ev.c}) /\ UNCHANGED <<seen, exited>>
SetOf(s) == {s[i] : i \in 1..Len(s)}
TExit == /\ IsEvent("Exit") /\ open = ""
         /\ seen = SetOf(Ev.all)                                      \* every check reported exactly once
         /\ failed = SetOf(Ev.fails)                                  \* each verdict as expected
         /\ (Ev.rc # 0) = (SetOf(Ev.fails) # {})                      \* exit status = OR of the failures
         /\ exited' = TRUE /\ UNCHANGED <<open, seen, failed>>
TraceNext == TBegin \/ TBody \/ TEnd \/ TExit
TraceSpec == TraceInit /\ [][TraceNext]_tvars
=============================================================================

------------------------- MODULE ProcessManagerTrace -------------------------
(* Trace validation of the real ProcessManager / SignalManager against ProcessManager.tla (C30).

   The driver renames pids, handler ids and OS threads to dense indices and attaches to each event the
   manager m it concerns (pure renaming; the SIGCHLD callback id identifies the manager):
     Register(m, k = command kind)     SigRegister (logged under callbacksAccess) + the harness's Cmd event of the thread
     Fork(m)        WaitRunning(m) / WaitNotRunning(m)   (the isRunning test of wait())
     FindLocked(m) / FindUnlock(m)     findProcess, both logged while processesAccess is held
     WaitpidDone(m, x = errno)         after wait()'s waitpid (0 = reaped by it, 4 = EINTR, 10 = ECHILD)
     SigEnter(h, x = number of callbacks snapshotted)   SigExec(h, m)   SigExit(h)      h = host thread
     HandlerReap(m)                    sigChildHandler's waitpid(WNOHANG) returned the pid
     SetExit(m, k = recorded kind)     setProcessExitStatus from the handler or from wait()
     Verdict(m, k = observed kind)     what execute() reported (harness)
     SigRemove(m)   Destroyed(m)
   The child's own exit is not logged: it is folded into the action that observes it. *)
EXTENDS ProcessManager, TraceIO

Idx(S) == IF S = {} THEN 0 ELSE CHOOSE m \in S : \A x \in S : x <= m
TraceT == 1..Idx({Tr[i].m : i \in {j \in 1..Len(Tr) : "m" \in DOMAIN Tr[j]}})
TraceExtra == {-h : h \in 1..Idx({-Tr[i].h : i \in {j \in 1..Len(Tr) : "h" \in DOMAIN Tr[j] /\ Tr[j].h < 0}})}

VARIABLE hreap    \* managers whose child was just reaped by the handler and whose SetExit is due
tvars == <<vars, l, hreap>>
TraceInit == /\ child = [t \in T |-> "none"] /\ ckind = [t \in T |-> "ok"] /\ mgr = [t \in T |-> "unborn"]
             /\ reg = [t \in T |-> FALSE] /\ running = [t \in T |-> FALSE] /\ result = [t \in T |-> "unset"]
             /\ wpc = [t \in T |-> "ctor"] /\ lst = [t \in T |-> "uninit"] /\ verdict = [t \in T |-> "none"]
             /\ pending = FALSE /\ hact = {} /\ hsnap = [h \in Hosts |-> {}] /\ uaf = FALSE
             /\ hwait = {} /\ cbl = {} /\ pl = {}
             /\ l = 1 /\ hreap = {}
M == Ev.m
\* the host is not suspended in the trace specification: what the host thread does while it hosts is
\* constrained by the events themselves (its events cannot interleave with its own handler's)
TRegister == /\ IsEvent("Register") /\ wpc[M] = "ctor" /\ cbl = {}      \* logged while callbacksAccess is held
             /\ mgr' = [mgr EXCEPT ![M] = "alive"] /\ reg' = [reg EXCEPT ![M] = TRUE]
             /\ ckind' = [ckind EXCEPT ![M] = Ev.k]
             /\ wpc' = [wpc EXCEPT ![M] = "fork"]
             /\ UNCHANGED <<child, running, result, lst, verdict, pending, hact, hsnap, hwait, cbl, pl, uaf, hreap>>
TFork == IsEvent("Fork") /\ Fork(M) /\ UNCHANGED hreap
\* findProcess is called by wait() (the model's FindLock / FindUnlock) and again by execute() and sendSignal()
TFindLocked == /\ IsEvent("FindLocked") /\ pl = {} /\ pl' = {M}
               /\ wpc' = IF wpc[M] = "find" THEN [wpc EXCEPT ![M] = "found"] ELSE wpc
               /\ UNCHANGED <<child, ckind, mgr, reg, running, result, lst, verdict, pending, hact, hsnap, hwait, cbl, uaf, hreap>>
TFindUnlock == /\ IsEvent("FindUnlock") /\ pl = {M} /\ pl' = {}
               /\ wpc' = IF wpc[M] = "found" THEN [wpc EXCEPT ![M] = "test"] ELSE wpc
               /\ UNCHANGED <<child, ckind, mgr, reg, running, result, lst, verdict, pending, hact, hsnap, hwait, cbl, uaf, hreap>>
TWaitRunning == /\ IsEvent("WaitRunning") /\ wpc[M] = "test" /\ running[M]
                /\ wpc' = [wpc EXCEPT ![M] = "waitpid"]
                /\ UNCHANGED <<child, ckind, mgr, reg, running, result, lst, verdict, pending, hact, hsnap, hwait, cbl, pl, uaf, hreap>>
TWaitNotRunning == /\ IsEvent("WaitNotRunning") /\ wpc[M] = "test" /\ ~running[M]
                   /\ wpc' = [wpc EXCEPT ![M] = "verdict"]
                   /\ UNCHANGED <<child, ckind, mgr, reg, running, result, lst, verdict, pending, hact, hsnap, hwait, cbl, pl, uaf, hreap>>
\* waitpid returned: errno 0 = it reaped the child itself
TWaitpidOk == /\ IsEvent("WaitpidDone") /\ Ev.x = 0 /\ wpc[M] = "waitpid"
              /\ child[M] \in {"running", "zombie"}
              /\ child' = [child EXCEPT ![M] = "reaped"] /\ lst' = [lst EXCEPT ![M] = ckind[M]]
              /\ wpc' = [wpc EXCEPT ![M] = "set"]
              /\ UNCHANGED <<ckind, mgr, reg, running, result, verdict, pending, hact, hsnap, hwait, cbl, pl, uaf, hreap>>
\* errno ECHILD: somebody else (the handler) reaped it
TWaitpidEchild == /\ IsEvent("WaitpidDone") /\ Ev.x = 10 /\ wpc[M] = "waitpid"
                  /\ child[M] = "reaped"
                  /\ wpc' = [wpc EXCEPT ![M] = IF CheckWaitpid THEN "verdict" ELSE "set"]
                  /\ UNCHANGED <<child, ckind, mgr, reg, running, result, lst, verdict, pending, hact, hsnap, hwait, cbl, pl, uaf, hreap>>
\* errno EINTR: a handler ran on this thread while it was blocked
TWaitpidEintr == /\ IsEvent("WaitpidDone") /\ Ev.x = 4 /\ wpc[M] = "waitpid"
                 /\ wpc' = [wpc EXCEPT ![M] = IF CheckWaitpid THEN "waitpid" ELSE "set"]
                 /\ UNCHANGED <<child, ckind, mgr, reg, running, result, lst, verdict, pending, hact, hsnap, hwait, cbl, pl, uaf, hreap>>
\* Deliver and Snap in one step: the event is logged once callbacksAccess is held
TSigEnter == /\ IsEvent("SigEnter") /\ Ev.h \notin hact /\ cbl = {}
             /\ hact' = hact \cup {Ev.h}
             /\ cbl' = IF ExecLocked THEN {<<"handler", Ev.h>>} ELSE {}
             /\ hsnap' = [hsnap EXCEPT ![Ev.h] = {m \in T : reg[m]}]
             /\ Cardinality(hsnap'[Ev.h]) = Ev.x          \* logged snapshot size = model's
             /\ UNCHANGED <<child, ckind, mgr, reg, running, result, wpc, lst, verdict, pending, hwait, pl, uaf, hreap>>
TSigExec == /\ IsEvent("SigExec") /\ Ev.h \in hact /\ M \in hsnap[Ev.h]
            /\ hsnap' = [hsnap EXCEPT ![Ev.h] = @ \ {M}]
            /\ uaf' = (uaf \/ mgr[M] # "alive" \/ ~reg[M])
            /\ UNCHANGED <<child, ckind, mgr, reg, running, result, wpc, lst, verdict, pending, hact, hwait, cbl, pl, hreap>>
THandlerReap == /\ IsEvent("HandlerReap") /\ running[M] /\ pl = {}     \* the handler holds processesAccess /\ child[M] \in {"running", "zombie"}
                /\ child' = [child EXCEPT ![M] = "reaped"]
                /\ hreap' = hreap \cup {M}
                /\ UNCHANGED <<ckind, mgr, reg, running, result, wpc, lst, verdict, pending, hact, hsnap, hwait, cbl, pl, uaf>>
\* setProcessExitStatus: from the handler (right after HandlerReap) ...
TSetExitH == /\ IsEvent("SetExit") /\ M \in hreap
             /\ Ev.k = ckind[M]                              \* the handler read the status from waitpid
             /\ result' = [result EXCEPT ![M] = Ev.k] /\ running' = [running EXCEPT ![M] = FALSE]
             /\ hreap' = hreap \ {M}
             /\ UNCHANGED <<child, ckind, mgr, reg, wpc, lst, verdict, pending, hact, hsnap, hwait, cbl, pl, uaf>>
\* ... or from wait()
TSetExitW == /\ IsEvent("SetExit") /\ M \notin hreap /\ wpc[M] = "set"
             /\ Set(M) /\ result'[M] = Ev.k
             /\ UNCHANGED hreap
\* wait() may also return from setProcessExitStatus without recording anything (status neither exited nor
\* signaled): only possible with an uninitialised status; the next event of m is then its Verdict
TVerdict == /\ IsEvent("Verdict")
            /\ \/ wpc[M] = "verdict" /\ UNCHANGED <<result, running>>
               \/ wpc[M] = "set" /\ lst[M] = "uninit" /\ UNCHANGED <<result, running>>
            /\ verdict' = [verdict EXCEPT ![M] = IF result[M] = "unset" THEN "garbage" ELSE result[M]]
            /\ Ev.k = verdict'[M]                            \* what execute() reported = what was recorded
            /\ wpc' = [wpc EXCEPT ![M] = "remove"]
            /\ UNCHANGED <<child, ckind, mgr, reg, lst, pending, hact, hsnap, hwait, cbl, pl, uaf, hreap>>
TSigRemove == IsEvent("SigRemove") /\ Remove(M) /\ UNCHANGED hreap
TDestroyed == IsEvent("Destroyed") /\ Destroy(M) /\ UNCHANGED hreap
TSigExit == /\ IsEvent("SigExit") /\ Ev.h \in hact /\ hsnap[Ev.h] = {}
            /\ hact' = hact \ {Ev.h}
            /\ cbl' = IF ExecLocked THEN {} ELSE cbl
            /\ UNCHANGED <<child, ckind, mgr, reg, running, result, wpc, lst, verdict, pending, hsnap, hwait, pl, uaf, hreap>>
TraceNext == \/ TRegister \/ TFork \/ TFindLocked \/ TFindUnlock \/ TWaitRunning \/ TWaitNotRunning \/ TWaitpidOk \/ TWaitpidEchild \/ TWaitpidEintr
             \/ TSigEnter \/ TSigExec \/ THandlerReap \/ TSetExitH \/ TSetExitW \/ TVerdict \/ TSigRemove
             \/ TDestroyed \/ TSigExit
TraceSpec == TraceInit /\ [][TraceNext]_tvars
=============================================================================

SPECIFICATION Spec
CONSTANTS
  NW = 2
  NT = 3
  NC = 1
  MaxWaits = 1
  MaxSpurious = 1
  Throwing = {2}
INVARIANTS TypeOK AtMostOnce DtorDrains NoLoss FutureFaithful WaitComplete

------------------------------ MODULE CubicJudge ------------------------------
EXTENDS Cubic, Judge
Fails(o) ==
  (IF o.kind = "real" THEN (IF OkReal(o.r, o.nb, o.q, o.d) THEN {} ELSE {"roots:" \o o.branch})
   ELSE (IF OkCplx(o.r[1], o.nb, o.q, o.d) THEN {} ELSE {"roots:" \o o.branch}))
  \cup (IF o.refine = 1 /\ o.worse THEN {"refinement-increases-residual:" \o o.branch} ELSE {})
  \cup (IF o.finite THEN {} ELSE {"non-finite"})
ASSUME JudgeAll(Fails)
=============================================================================

------------------------------ MODULE SortSpecGen ------------------------------
EXTENDS SortSpec, Mat3, TLC, Json, IOUtils, SequencesExt
\* function level: every triple x ordering x dimension x function
Fns == {"sortEigenValues", "SortEigenValues", "SortEigenVectors", "fses_sort"}
FnCases == {[kind |-> "fn", fn |-> f, n |-> n, ord |-> o, in |-> t] :
              f \in Fns, n \in 1..3, o \in Orders, t \in Triples}
\* solver level: tensors with the spectrum t, diagonal or rotated by a rotation of the cube (exact in floating
\* point, so ties are exact); in 2D only rotations about e3; solver index 0..7 = stensor_common::EigenSolver
CubeZ == {R \in CubeRotations : R[3][3] = 1}
SomeCube == {R \in CubeRotations : R[1][1] + R[2][2] + R[3][3] \in {3, 0, -1}}
Tensor(t, R) == CompOf(Mul(R, Mul(Diag(t[1], t[2], t[3]), Transpose(R))))
SC(n, Rs) == {[kind |-> "solver", solver |-> s, n |-> n, ord |-> o, a |-> Tensor(t, R), vec |-> v] :
                  s \in 0..7, o \in Orders, t \in Triples, v \in 0..1, R \in Rs}
SolverCases == SC(2, CubeZ) \cup SC(3, SomeCube)
             \cup {[kind |-> "solver", solver |-> s, n |-> 1, ord |-> o, a |-> <<t[1], t[2], t[3], 0, 0, 0>>, vec |-> v] :
                  s \in 0..7, o \in Orders, t \in Triples, v \in 0..1}
Number(S) == LET s == SetToSeq(S) IN [i \in 1..Len(s) |-> [id |-> i] @@ s[i]]
ASSUME SpecTheorems
ASSUME ndJsonSerialize(IOEnv.OUT, Number(FnCases \cup SolverCases))
ASSUME PrintT(<<"GEN", Cardinality(FnCases), Cardinality(SolverCases)>>)
=============================================================================

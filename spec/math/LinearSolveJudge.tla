---------------------------- MODULE LinearSolveJudge ----------------------------
(* one observation per (case, solver): failed = the solver reported failure (exception or false);
   x = nearest integers of the returned solution, tight = all components within tolerance of an integer;
   for the inverse: ok = A . A^-1 rounds to the identity within tolerance *)
EXTENDS LinearSolve, Judge
Check(name, b) == IF b THEN {} ELSE {name}
Fails(o) ==
  IF o.singular = 1
  THEN Check("silent-on-singular:" \o o.solver \o ":" \o o.family, o.failed = 1)
  ELSE Check("false-failure:" \o o.solver \o ":" \o o.family, o.failed = 0)
       \cup Check("wrong-solution:" \o o.solver \o ":" \o o.family, o.failed = 1 \/ (o.x = o.x0 /\ o.tight))
ASSUME JudgeAll(Fails)
=============================================================================

--------------------------------- MODULE IEEE754 ---------------------------------
(* C16 - tfel::math::ieee754::fpclassify / isnan / isfinite are bit-exact.
   The decision table of IEEE-754 classification from the fields of an encoding:
     ecls : class of the exponent field: "zero" (all 0), "max" (all 1), "mid" (anything else)
     frac : 1 iff the fraction field (below the explicit integer bit for x87 long double) is non zero
     msb  : the explicit integer bit of the x87 extended format (long double), -1 for float / double
   x87-only rows follow the platform C library (glibc): pseudo-denormal (exponent 0, integer bit 1) is
   normal; unnormal, pseudo-infinity and pseudo-NaN (exponent non zero, integer bit 0) are NaN. *)
EXTENDS Integers, Sequences
Class(type, ecls, msb, frac) ==
  IF type # "ldouble" \/ msb = -1
  THEN IF ecls = "zero" THEN (IF frac = 0 THEN "zero" ELSE "sub")
       ELSE IF ecls = "max" THEN (IF frac = 0 THEN "inf" ELSE "nan") ELSE "normal"
  ELSE IF ecls = "zero" THEN (IF msb = 0 THEN (IF frac = 0 THEN "zero" ELSE "sub") ELSE "normal")   \* pseudo-denormal
       ELSE IF msb = 0 THEN "nan"                                           \* unnormal, pseudo-inf, pseudo-nan
       ELSE IF ecls = "max" THEN (IF frac = 0 THEN "inf" ELSE "nan") ELSE "normal"
IsNan(c) == c = "nan"
IsFinite(c) == c \in {"zero", "sub", "normal"}
\* number of float encodings per row, as <<high 16 bits, low 16 bits>> of the 32-bit count
FloatCount(ecls, frac) ==
  IF ecls = "zero" THEN (IF frac = 0 THEN <<0, 2>> ELSE <<255, 65534>>)        \* 2 ; 2 (2^23 - 1)
  ELSE IF ecls = "max" THEN (IF frac = 0 THEN <<0, 2>> ELSE <<255, 65534>>)
  ELSE (IF frac = 0 THEN <<0, 508>> ELSE <<65023, 65028>>)                     \* 2.254 ; 2.254.(2^23 - 1)
\* the six rows cover every float encoding exactly once: 2 + 2(2^23-1) + 2 + 2(2^23-1) + 508 + 508(2^23-1) = 2^32
Theorem == LET S == {<<e, f>> : e \in {"zero", "mid", "max"}, f \in {0, 1}}
               lo == 2 + 65534 + 2 + 65534 + 508 + 65028
               hi == 0 + 255 + 0 + 255 + 0 + 65023
           IN  lo = 3 * 65536 /\ hi + 3 = 65536
=============================================================================

------------------------------ MODULE ArrayViews ------------------------------
\* C17 - expression templates and views = naive element-wise code on a flat memory.
\* The memory is a buffer of integer cells numbered from 0 (a TLA+ sequence, cell q is buf[q + 1]).  Every array-like
\* object is either a private copy of a contiguous region of the buffer ("own", taken before the statement and, for
\* a destination, written back after it) or a view, i.e. an index mapping from logical positions 1..n (row-major
\* order) to cells.  A statement  dst <asg> tree  means the naive loop
\*      for p = 1..n in ascending row-major order :  dst[p] <asg>= value of the tree at position p
\* where leaves that are views read the *current* memory, so that a destination aliasing an operand (exactly or
\* with a shift) has the meaning of the naive loop.  Products (matrix.vector, matrix.matrix, dot) have their eager meaning.
\* Nothing here is transcribed from TFEL ; the cells of each kind of view are the documented ones
\* (docs/web/tfel-math.md "Views", doxygen comments of tvector.hxx / tmatrix.hxx).
EXTENDS Integers, Sequences, FiniteSets, TLC
\* ---------------- index mappings: sequences of cells (0-based) in logical order ----------------
VecCells(n, off, st) == [p \in 1..n |-> off + ((p - 1) * st)]
MatCells(n, m, off, st) == [p \in 1..(n * m) |-> off + (((p - 1) \div m) * st) + ((p - 1) % m)]
SizeOfType(t) == CASE t = "scalar" -> 1 [] t = "tvector2" -> 2 [] t = "tvector3" -> 3 [] t = "stensor1" -> 3 [] t = "stensor2" -> 4
                   [] t = "tensor1" -> 3 [] t = "tensor2" -> 5 [] t = "tmatrix22" -> 4 [] t = "tmatrix23" -> 6 [] t = "vector3" -> 3
                   [] t = "fsarray3" -> 3 [] t = "rtarray3" -> 3 [] t = "rtmatrix22" -> 4
\* cells of the views of the `addr` programs ; `off` is the cell of the first element of the host object
\* (the raw pointer, the tvector<6> / tvector<12>, the tmatrix<3,4> or the tmatrix<5,4> the view is taken from)
ViewCells(v, off) ==
  CASE v.k = "vecview" -> VecCells(v.n, off, v.st)                        \* View<tvector<n>, FixedSizeVectorIndexingPolicy<n, st>>
    [] v.k = "matview" -> MatCells(v.n, v.m, off, v.st)                   \* View<tmatrix<n,m>, FixedSizeRowMajorMatrixIndexingPolicy<n, m, st>>
    [] v.k = "slice1"  -> VecCells(6 - v.i, off + v.i, 1)                 \* tvector<6>::slice<i>() : elements i .. 5
    [] v.k = "slice2"  -> VecCells(v.j - v.i, off + v.i, 1)               \* tvector<6>::slice<i, j>() : elements i .. j-1
    [] v.k = "tvmap"   -> VecCells(SizeOfType(v.t), off + v.i, 1)         \* map<T, i>(tvector<6>&) : offset i
    [] v.k = "row1"    -> VecCells(4, off + (4 * v.i), 1)                 \* tmatrix<3,4>::row_view<i>()
    [] v.k = "row3"    -> VecCells(v.n, off + (4 * v.i) + v.j, 1)         \* row_view<i, j, n>() : row i, from column j, n elements
    [] v.k = "col1"    -> VecCells(3, off + v.i, 4)                       \* column_view<i>()
    [] v.k = "col3"    -> VecCells(v.n, off + (4 * v.j) + v.i, 4)         \* column_view<i, j, n>() : column i, from row j, n elements
    [] v.k = "submat"  -> MatCells(v.r, v.c, off + (4 * v.i) + v.j, 4)    \* submatrix_view<i, j, r, c>()
    [] v.k = "strided" -> VecCells(SizeOfType(v.t), off, v.st)            \* map_strided<T>(p, st)
    [] v.k = "coal"    -> [p \in 1..Len(v.rel) |-> off + v.rel[p]]        \* map<T>(array of pointers)
    \* derivative blocks of a tmatrix<5,4>: rows = components of the function, columns = components of the variable
    [] v.k = "deriv"   -> MatCells(SizeOfType(v.f), SizeOfType(v.v), off + (4 * v.i) + v.j, 4)
    \* same block in a structure-of-arrays memory: element (a, b) of the 5x4 base matrix at p + (4 a + b) st
    [] v.k = "derivs"  -> [p \in 1..(SizeOfType(v.f) * SizeOfType(v.v)) |->
                             off + (((4 * (v.i + ((p - 1) \div SizeOfType(v.v)))) + v.j + ((p - 1) % SizeOfType(v.v))) * v.st)]
    \* array of n views of stensor<1> in a tvector<12>: element e at offset i + e st
    [] v.k = "varray"  -> [p \in 1..(3 * v.n) |-> off + v.i + (((p - 1) \div 3) * v.st) + ((p - 1) % 3)]
\* minimal size of the memory area a fixed-size policy needs: one more than its largest relative cell
MinimalSize(cells, off) == 1 + (CHOOSE x \in {cells[p] - off : p \in 1..Len(cells)} : \A y \in {cells[p] - off : p \in 1..Len(cells)} : y <= x)
SeqSet(s) == {s[p] : p \in 1..Len(s)}
Injective(cells) == Cardinality(SeqSet(cells)) = Len(cells)
\* ---- expected observation of an `addr` program: read through the view, then view = 1001, 1002, ... ----
AddrRead(buf, cells) == [p \in 1..Len(cells) |-> buf[cells[p] + 1]]
AddrWrite(buf, cells) == [q \in 1..Len(buf) |-> IF \E p \in 1..Len(cells) : cells[p] + 1 = q
                                                THEN 1000 + (CHOOSE p \in 1..Len(cells) : cells[p] + 1 = q) ELSE buf[q]]
\* ---------------- operands of the `expr` programs ----------------
\* family -> number of elements ; operand = [k, off, st, rel]
OpCells(fam, o) ==
  CASE o.k \in {"own", "map"} -> VecCells(SizeOfType(fam), o.off, 1)
    [] o.k = "sv2"     -> VecCells(3, o.off, 2)                           \* tvector<3> with stride 2
    [] o.k = "mv4"     -> MatCells(2, 3, o.off, 4)                        \* tmatrix<2,3> with row stride 4
    [] o.k = "strided" -> VecCells(SizeOfType(fam), o.off, o.st)
    [] o.k = "coal"    -> [p \in 1..Len(o.rel) |-> o.off + o.rel[p]]
\* ---- trees: [op |-> "leaf", s |-> 1 | 2 | 3] (3 = the destination itself), "neg" x, "add" / "sub" x y,
\*      "sml" (c[k] * x), "smr" (x * c[k]), "div" (x / 2) ----
RECURSIVE Ev(_, _, _), EvOk(_, _, _), HasDiv(_), Leaves(_)
\* env = [cur, ini, priv, ops, cells, c, p]: current and initial memory, private values of an own destination,
\* operands <<a, b, dst>>, their cells, scalar constants, logical position
LeafValue(s, env) ==
  IF s = 3 /\ env.ops[3].k = "own" THEN env.priv[env.p]
  ELSE (IF env.ops[s].k = "own" THEN env.ini ELSE env.cur)[env.cells[s][env.p] + 1]
Ev(t, env, dummy) ==
  CASE t.op = "leaf" -> LeafValue(t.s, env)
    [] t.op = "neg"  -> 0 - Ev(t.x, env, dummy)
    [] t.op = "add"  -> Ev(t.x, env, dummy) + Ev(t.y, env, dummy)
    [] t.op = "sub"  -> Ev(t.x, env, dummy) - Ev(t.y, env, dummy)
    [] t.op = "sml"  -> env.c[t.k] * Ev(t.x, env, dummy)
    [] t.op = "smr"  -> Ev(t.x, env, dummy) * env.c[t.k]
    [] t.op = "div"  -> Ev(t.x, env, dummy) \div 2
\* every division of the evaluation is exact (the oracle is integer arithmetic)
EvOk(t, env, dummy) ==
  CASE t.op = "leaf" -> TRUE
    [] t.op \in {"neg", "sml", "smr"} -> EvOk(t.x, env, dummy)
    [] t.op \in {"add", "sub"} -> EvOk(t.x, env, dummy) /\ EvOk(t.y, env, dummy)
    [] t.op = "div"  -> EvOk(t.x, env, dummy) /\ Ev(t.x, env, dummy) % 2 = 0
HasDiv(t) == CASE t.op = "leaf" -> FALSE [] t.op = "div" -> TRUE [] t.op \in {"add", "sub"} -> HasDiv(t.x) \/ HasDiv(t.y) [] OTHER -> HasDiv(t.x)
Leaves(t) == CASE t.op = "leaf" -> {t.s} [] t.op \in {"add", "sub"} -> Leaves(t.x) \cup Leaves(t.y) [] OTHER -> Leaves(t.x)
Combine(asg, old, rhs, c) == CASE asg = "=" -> rhs [] asg = "+=" -> old + rhs [] asg = "-=" -> old - rhs
                               [] asg = "*=" -> old * c[1] [] asg \in {"/=", "/=i"} -> old \div 2     \* "/=i": the divisor is the integer literal 2
\* the naive loop ; returns [mem, ok]
RECURSIVE Loop(_, _, _, _, _)
Loop(pr, p, cur, priv, ok) ==
  LET n == SizeOfType(pr.fam)
      cells == <<OpCells(pr.fam, pr.ops[1]), OpCells(pr.fam, pr.ops[2]), OpCells(pr.fam, pr.ops[3])>>
      own == pr.ops[3].k = "own"
  IN IF p > n THEN [mem |-> IF own THEN [q \in 1..Len(cur) |-> IF \E r \in 1..n : cells[3][r] + 1 = q
                                                                     THEN priv[CHOOSE r \in 1..n : cells[3][r] + 1 = q] ELSE cur[q]]
                                    ELSE cur, ok |-> ok]
     ELSE LET env == [cur |-> cur, ini |-> pr.buf, priv |-> priv, ops |-> pr.ops, cells |-> cells, c |-> pr.c, p |-> p]
              scalarOnly == pr.asg \in {"*=", "/=", "/=i"}
              rhs == IF scalarOnly THEN 0 ELSE Ev(pr.tree, env, 0)
              old == IF own THEN priv[p] ELSE cur[cells[3][p] + 1]
              new == Combine(pr.asg, old, rhs, pr.c)
              ok2 == ok /\ (IF scalarOnly THEN (pr.asg = "*=" \/ old % 2 = 0) ELSE EvOk(pr.tree, env, 0))
          IN IF own THEN Loop(pr, p + 1, cur, [priv EXCEPT ![p] = new], ok2)
             ELSE Loop(pr, p + 1, [cur EXCEPT ![cells[3][p] + 1] = new], priv, ok2)
Run(pr) == LET n == SizeOfType(pr.fam) c3 == OpCells(pr.fam, pr.ops[3])
           IN Loop(pr, 1, pr.buf, [p \in 1..n |-> pr.buf[c3[p] + 1]], TRUE)
\* well-formed program: every operand inside the buffer, view mappings injective
WellFormed(pr) == \A s \in 1..3 : LET cs == OpCells(pr.fam, pr.ops[s]) IN
                     Injective(cs) /\ \A p \in 1..Len(cs) : cs[p] >= 0 /\ cs[p] < Len(pr.buf)
\* the destination aliases an operand leaf exactly (same cells in the same order) / with a shift (overlap, different cells)
Overlaps(pr, s) == pr.ops[s].k # "own" /\ pr.ops[3].k # "own"
                   /\ SeqSet(OpCells(pr.fam, pr.ops[s])) \cap SeqSet(OpCells(pr.fam, pr.ops[3])) # {}
ExactAlias(pr, s) == Overlaps(pr, s) /\ OpCells(pr.fam, pr.ops[s]) = OpCells(pr.fam, pr.ops[3])
\* ---------------- products (eager meaning) ----------------
\* operands: m = tmatrix<2,3> (own | map | mv4), w = tmatrix<3,2> or tvector<3> (own | map | sv2), read from the initial buffer
ProdExpected(pr) ==
  LET mc == OpCells("tmatrix23", pr.m) Mx(i, j) == pr.buf[mc[((i - 1) * 3) + j] + 1]
  IN CASE pr.what = "mv" -> LET vc == OpCells("tvector3", pr.w) IN
                              [i \in 1..2 |-> (Mx(i, 1) * pr.buf[vc[1] + 1]) + (Mx(i, 2) * pr.buf[vc[2] + 1]) + (Mx(i, 3) * pr.buf[vc[3] + 1])]
       [] pr.what = "mm" -> LET wc == VecCells(6, pr.w.off, 1) W(i, j) == pr.buf[wc[((i - 1) * 2) + j] + 1] IN
                              [q \in 1..4 |-> LET i == ((q - 1) \div 2) + 1 j == ((q - 1) % 2) + 1 IN
                                              (Mx(i, 1) * W(1, j)) + (Mx(i, 2) * W(2, j)) + (Mx(i, 3) * W(3, j))]
       [] pr.what = "dot" -> LET ac == OpCells("tvector3", pr.m) bc == OpCells("tvector3", pr.w) IN
                              <<(pr.buf[ac[1] + 1] * pr.buf[bc[1] + 1]) + (pr.buf[ac[2] + 1] * pr.buf[bc[2] + 1]) + (pr.buf[ac[3] + 1] * pr.buf[bc[3] + 1])>>
=============================================================================

------------------------------- MODULE SortSpec -------------------------------
(* C04 - requested eigenvalue ordering is honoured, ties included.
   Values are abstracted by their dense rank (RANK): the specification only compares.
   ord: "asc" | "desc" | "none".  n = space dimension: in 3D the three values are sorted, in 2D only
   the in-plane pair (positions 1, 2), in 1D nothing (documented in stensor.hxx / tensors.md). *)
EXTENDS Integers, Sequences, FiniteSets
Le(ord, x, y) == IF ord = "asc" THEN x <= y ELSE x >= y
SortedPrefix(ord, s, k) == \A i \in 1..(k - 1) : Le(ord, s[i], s[i + 1])
Count(s, x) == Cardinality({i \in 1..Len(s) : s[i] = x})
IsPermutationOf(a, b) == Len(a) = Len(b) /\ \A i \in 1..Len(a) : Count(a, a[i]) = Count(b, a[i])
\* number of leading positions that must be sorted
Scope(n) == IF n = 3 THEN 3 ELSE IF n = 2 THEN 2 ELSE 1
\* out is an admissible result of sorting `in` with ordering ord in dimension n
Honoured(n, ord, in, out) ==
  /\ Len(out) = 3
  /\ IF ord = "none" THEN out = in
     ELSE /\ SortedPrefix(ord, out, Scope(n))
          /\ IsPermutationOf(SubSeq(in, 1, Scope(n)), SubSeq(out, 1, Scope(n)))
          /\ SubSeq(out, Scope(n) + 1, 3) = SubSeq(in, Scope(n) + 1, 3)
\* perm[i] = input column now at output position i: columns travel with their eigenvalues
ColumnsFollow(in, out, perm) ==
  /\ {perm[i] : i \in 1..3} = 1..3
  /\ \A i \in 1..3 : in[perm[i]] = out[i]
\* all 27 triples over {1,2,3}: every weak order pattern with every placement
Triples == {<<a, b, c>> : a \in 1..3, b \in 1..3, c \in 1..3}
Orders == {"asc", "desc", "none"}
\* the definitions are consistent: an independently written insertion sort satisfies them
Ins(ord, s, x) == LET k == Cardinality({i \in 1..Len(s) : Le(ord, s[i], x)}) IN SubSeq(s, 1, k) \o <<x>> \o SubSeq(s, k + 1, Len(s))
Sort3(ord, t) == Ins(ord, Ins(ord, <<t[1]>>, t[2]), t[3])
SpecTheorems == \A t \in Triples : \A o \in {"asc", "desc"} : Honoured(3, o, t, Sort3(o, t))
=============================================================================

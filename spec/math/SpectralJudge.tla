----------------------------- MODULE SpectralJudge -----------------------------
(* JUDGE for C03.  Observations of harness/spectral.cxx (LOGERR = smallest p with error <= 2^p relative to the
   norm, 99 = not a number; see the harness header).  The obligations of the property:
     threw / non-finite : a finite symmetric tensor yields finite values and vectors, without exception
     eigenvalues        : computeEigenValues returns the known multiset, in an order allowed by ord and n
     vector-values      : the same for the values returned by computeEigenVectors
     eigenspaces        : the vectors attached to each cluster of eigenvalues span the known eigenspace
     residual           : |s n_i - vp_i n_i| <= tol |s|
     orthonormal        : |n_i . n_j - delta_ij| <= tol, |det| = 1
     reconstruction     : |sum vp_i n_i (x) n_i - s| <= tol |s|
     eigen-tensors      : computeEigenTensors returns the dyads n_i (x) n_i
     conventions        : 1D identity and copies, 2D block structure and untouched out-of-plane value
   Observations at 2^+-300 for algorithms that are not scale free are judged the same way but their failures
   are reported under the prefix extreme-scale: (recorded by the driver, not violations). *)
EXTENDS Spectral, Judge
Base(o) ==
  IF o.threw THEN {"threw"}
  ELSE IF ~o.finite THEN {"non-finite"}
  ELSE LET P == Profile(o.n, o.solver, o.ev)
           tv == P.tv
           wv == ValuesOk(o.n, o.ord, o.ev, P, o.we)
           on == o.orth <= tv /\ o.det <= tv + 2
       IN (IF ValuesOk(o.n, o.ord, o.ev, P, o.ve) THEN {} ELSE {"eigenvalues"})
          \cup (IF wv THEN {} ELSE {"vector-values"})
          \cup (IF wv /\ ~VectorsOk(o.n, o.ord, o.ev, P, o.we, o.ov) THEN {"eigenspaces"} ELSE {})
          \cup (IF \A i \in 1..3 : o.res[i] <= tv THEN {} ELSE {"residual"})
          \cup (IF on THEN {} ELSE {"orthonormal"})
          \cup (IF o.recon <= tv + 2 THEN {} ELSE {"reconstruction"})
          \cup (IF on /\ o.tens > TensExp THEN {"eigen-tensors"} ELSE {})
          \cup (IF o.structure THEN {} ELSE {"conventions"})
Fails(o) == IF o.scalefree THEN Base(o) ELSE {"extreme-scale:" \o f : f \in Base(o)}
ASSUME JudgeAll(Fails)
=============================================================================

------------------------------ MODULE Discretization ------------------------------
(* C15 - geometricDiscretization(v, xb, xe, db, de, n): n + 1 strictly monotone nodes from xb to xe whose
   consecutive element lengths are in constant ratio.
   Observation of one call (harness/discretization.cxx), values abstracted by CLASS / SIGN / FIX:
     count      number of nodes returned
     first,last 1 iff the end nodes are bit-equal to xb, xe
     dir        sign of xe - xb;  signs = set of signs of the consecutive differences
     ratio      "const" iff all length ratios agree within the a-priori rounding bound of the differences
                (16 eps max|x| / min|d|, plus 1e-12), "varies" otherwise, "na" for n < 3
     thrown     1 iff the call threw (only legal for invalid arguments, never generated) *)
EXTENDS Integers, Sequences, FiniteSets
Ordered(o) == o.signs = {o.dir}
Ok(o) == /\ o.thrown = 0
         /\ o.count = o.n + 1
         /\ o.first = 1 /\ o.last = 1
         /\ Ordered(o)
         /\ o.ratio \in {"const", "na"}
\* GEN: intervals, density pairs de = db (1 + s 2^-k) around equality and far from it, element counts
Intervals == {<<0, 1>>, <<-3, 5>>, <<1000000, 1000250>>, <<5, -3>>}
Ns == {1, 2, 3, 10, 1000, 100000}
NearOne == {<<s, k>> : s \in {-1, 1}, k \in 2..30}
Far == {<<1, 10>>, <<10, 1>>, <<1, 1>>, <<1, 3>>, <<7, 2>>}
=============================================================================

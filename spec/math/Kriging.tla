-------------------------------- MODULE Kriging --------------------------------
(* C19 - Kriging interpolants reproduce their training data (include/TFEL/Math/Kriging.hxx, FactorizedKriging.hxx,
   Kriging1D/2D/3D.hxx, Parser/KrigedFunction.hxx).

   A training set is a sequence of points with integer coordinates (dimension N = 1, 2, 3) and integer values.
   Dual kriging with the default models: generalised covariance |h|^3 (1D), h^2 log h (2D), |h| (3D), all null at h = 0,
   and the N + 1 drift functions 1, x (, y (, z)).  The interpolant is  sum_j a_j K(x - x_j) + sum_k b_k d_k(x)  where
   (a, b) solves the bordered system whose diagonal is the nugget.  Consequences judged here:

   * class of the training set:
       "insufficient"  no more points than drift functions: building must fail (KrigingErrorInsufficientData);
       "duplicate"     two identical points (two identical rows: the system is singular);
       "flat"          all the points on one line (2D) / one plane (3D): the drift columns are dependent, singular system;
       "regular"       otherwise: the kernels are conditionally definite and the set is unisolvent for the affine
                       functions, so the system is regular and building must succeed;
   * without nugget the row i of the system IS the value of the interpolant at x_i (K(0) = 0): a built interpolant
     returns every training value (relative to the scale of the data); for singular classes the only admissible
     alternative is an exception ("not garbage");
   * affine data is in the span of the drifts: on a regular set (a, b) = (0, coefficients) is THE solution, with or
     without nugget, so the interpolant is the affine function everywhere (probed on half-integer points, exactly);
   * with a nugget v > 0 the value at x_i is f_i - v a_i: the residuals add up to zero (row of the drift 1) and are
     not all null when the data is not that of an affine function (the nugget is taken into account);
   * the wrappers Kriging1D/2D/3D are the template applied to coordinates normalised to [0, 1] one by one;
     KrigedFunction<N> is the template itself.

   FactorizedKriging<1, 1> (covariance K1(h1) K2(h2), drifts of the first model followed by the drifts of the second
   one without its constant): default models 1D x 1D, drifts 1, x1, x2; the wrapper FactorizedKriging1D1D uses the
   piecewise linear model |h1| with drift 1 only, i.e. drifts 1, x2, on normalised coordinates. *)
EXTENDS Integers, Sequences, FiniteSets
Dim(pts) == Len(pts[1])
NbDrifts(n) == n + 1
Diff(a, b) == [i \in 1..Len(a) |-> a[i] - b[i]]
Cross2(u, v) == u[1] * v[2] - u[2] * v[1]
Det3(u, v, w) == u[1] * (v[2] * w[3] - v[3] * w[2]) - u[2] * (v[1] * w[3] - v[3] * w[1]) + u[3] * (v[1] * w[2] - v[2] * w[1])
Idx(pts) == 1..Len(pts)
HasDuplicate(pts) == \E i \in Idx(pts) : \E j \in Idx(pts) : i < j /\ pts[i] = pts[j]
\* the points are not all on one point (1D) / line (2D) / plane (3D)
Unisolvent(pts) ==
  LET d(i) == Diff(pts[i], pts[1]) IN
  IF Dim(pts) = 1 THEN \E i \in Idx(pts) : d(i)[1] # 0
  ELSE IF Dim(pts) = 2 THEN \E i \in Idx(pts) : \E j \in Idx(pts) : Cross2(d(i), d(j)) # 0
  ELSE \E i \in Idx(pts) : \E j \in Idx(pts) : \E k \in Idx(pts) : Det3(d(i), d(j), d(k)) # 0
Class(pts) == IF Len(pts) <= NbDrifts(Dim(pts)) THEN "insufficient"
              ELSE IF HasDuplicate(pts) THEN "duplicate"
              ELSE IF ~Unisolvent(pts) THEN "flat" ELSE "regular"
\* ---- data ----
RECURSIVE DotR(_, _, _)
DotR(c, x, k) == IF k = 0 THEN 0 ELSE c[k] * x[k] + DotR(c, x, k - 1)
Affine(c0, c, x) == c0 + DotR(c, x, Len(x))
Quad(x) == IF Len(x) = 1 THEN x[1] * x[1] - 3 * x[1]
           ELSE IF Len(x) = 2 THEN x[1] * x[1] - x[1] * x[2] + 2 * x[2]
           ELSE x[1] * x[1] - x[1] * x[2] + 2 * x[3] + x[2] * x[3]
Values(fam, c0, c, pts) == [i \in Idx(pts) |-> IF fam = "affine" THEN Affine(c0, c, pts[i])
                                               ELSE IF fam = "quad" THEN Quad(pts[i])
                                               ELSE IF i = 1 THEN 1 ELSE 0]
AbsV(x) == IF x < 0 THEN -x ELSE x
MaxAbs(vals) == LET S == {AbsV(vals[i]) : i \in 1..Len(vals)} \cup {1} IN CHOOSE m \in S : \A y \in S : y <= m
\* the values are those of an affine function on a unisolvent set: the lifted points <<x, f>> lie in one hyperplane, i.e. the
\* determinant of the lifted differences of an affinely independent simplex and of any other point is null
Det4(a, b, c, d) == a[1] * Det3(<<b[2], b[3], b[4]>>, <<c[2], c[3], c[4]>>, <<d[2], d[3], d[4]>>)
                    - a[2] * Det3(<<b[1], b[3], b[4]>>, <<c[1], c[3], c[4]>>, <<d[1], d[3], d[4]>>)
                    + a[3] * Det3(<<b[1], b[2], b[4]>>, <<c[1], c[2], c[4]>>, <<d[1], d[2], d[4]>>)
                    - a[4] * Det3(<<b[1], b[2], b[3]>>, <<c[1], c[2], c[3]>>, <<d[1], d[2], d[3]>>)
AffineData(pts, vals) ==
  LET d(i) == Diff(pts[i], pts[1])
      L(i) == Append(d(i), vals[i] - vals[1])
  IN IF Dim(pts) = 1 THEN LET i == CHOOSE i \in Idx(pts) : d(i)[1] # 0 IN \A l \in Idx(pts) : Cross2(L(i), L(l)) = 0
     ELSE IF Dim(pts) = 2 THEN LET ij == CHOOSE ij \in Idx(pts) \X Idx(pts) : Cross2(d(ij[1]), d(ij[2])) # 0
                               IN \A l \in Idx(pts) : Det3(L(ij[1]), L(ij[2]), L(l)) = 0
     ELSE LET i == CHOOSE i \in Idx(pts) : d(i) # <<0, 0, 0>>
              j == CHOOSE j \in Idx(pts) : \E k \in Idx(pts) : Det3(d(i), d(j), d(k)) # 0
              k == CHOOSE k \in Idx(pts) : Det3(d(i), d(j), d(k)) # 0
          IN \A l \in Idx(pts) : Det4(L(i), L(j), L(k), L(l)) = 0
\* a probe is a sequence of rationals <<n, 2>>; twice the value of the affine function on it is an integer
AffineTwice(c0, c, p) == 2 * c0 + DotR(c, [i \in 1..Len(p) |-> p[i][1]], Len(p))
\* ---- normalisation of the wrappers: lowest coordinate and span, coordinate by coordinate ----
Coord(pts, k) == {pts[i][k] : i \in Idx(pts)}
MinS(S) == CHOOSE m \in S : \A y \in S : m <= y
MaxS(S) == CHOOSE m \in S : \A y \in S : y <= m
Lo(pts) == [k \in 1..Dim(pts) |-> MinS(Coord(pts, k))]
Span(pts) == [k \in 1..Dim(pts) |-> MaxS(Coord(pts, k)) - MinS(Coord(pts, k))]
\* the wrappers refuse a null span (KrigingUtilities::normalize)
WrapperRefuses(pts) == \E k \in 1..Dim(pts) : Span(pts)[k] = 0
\* ---- theorems of the oracle ----
Theorems ==
  /\ Class(<<<<0>>, <<1>>>>) = "insufficient" /\ Class(<<<<0>>, <<1>>, <<1>>, <<2>>>>) = "duplicate" /\ Class(<<<<0>>, <<2>>, <<1>>>>) = "regular"
  /\ Class(<<<<0, 1>>, <<1, 3>>, <<2, 5>>, <<3, 7>>>>) = "flat" /\ Class(<<<<0, 1>>, <<1, 3>>, <<2, 5>>, <<3, 8>>>>) = "regular"
  /\ Class(<<<<0, 0, 0>>, <<1, 0, 1>>, <<0, 1, 2>>, <<1, 1, 3>>, <<2, 1, 4>>>>) = "flat"
  /\ Class(<<<<0, 0, 0>>, <<1, 0, 1>>, <<0, 1, 2>>, <<1, 1, 3>>, <<2, 1, 5>>>>) = "regular"
  /\ Values("affine", 1, <<2, -1>>, <<<<0, 0>>, <<1, 3>>>>) = <<1, 0>> /\ AffineTwice(1, <<2, -1>>, <<<<1, 2>>, <<3, 2>>>>) = 1
  /\ AffineData(<<<<0, 0>>, <<0, 1>>, <<0, 2>>, <<1, 0>>>>, <<0, 2, 4, 1>>) /\ ~AffineData(<<<<0, 0>>, <<0, 1>>, <<0, 2>>, <<1, 0>>>>, <<0, 2, 5, 1>>)
  /\ AffineData(<<<<0>>, <<2>>, <<3>>>>, <<1, 5, 7>>) /\ ~AffineData(<<<<0>>, <<2>>, <<3>>>>, <<1, 5, 8>>)
  /\ AffineData(<<<<0, 0, 0>>, <<1, 0, 0>>, <<0, 1, 0>>, <<0, 0, 1>>, <<1, 1, 1>>>>, <<1, 3, 0, 5, 6>>)          \* 1 + 2x - y + 4z
  /\ ~AffineData(<<<<0, 0, 0>>, <<1, 0, 0>>, <<0, 1, 0>>, <<0, 0, 1>>, <<1, 1, 1>>>>, <<1, 3, 0, 5, 7>>)
  /\ Lo(<<<<2, 5>>, <<4, 1>>>>) = <<2, 1>> /\ Span(<<<<2, 5>>, <<4, 1>>>>) = <<2, 4>>
=============================================================================

------------------------------- MODULE Spectral -------------------------------
(* C03 / C05 - spectral decomposition of symmetric tensors: what a valid decomposition is, and a lattice of
   tensors *constructed* from a known decomposition so that the exact answer is known here.

   A decomposition is a triple (M, n, l): M an integer matrix whose columns are n times an orthonormal
   right-handed basis (M.M^T = n^2 Id, det M = n^3), l an integer triple.  The tensor is
        A = M diag(l) M^T          (integer components, exactly representable in binary floating point)
   its eigenvalues are vp_i = n^2 l_i and its eigenvectors the columns of M / n:
        A = sum_i vp_i n_i (x) n_i,   A n_i = vp_i n_i,   n_i . n_j = delta_ij,   det[n_1 n_2 n_3] = +1
   and the vp_i are the roots of the characteristic polynomial det(x Id - A).  When eigenvalues coincide the
   basis of the eigenspace is arbitrary: only the projector on the eigenspace, sum over the equal vp of
   n_i (x) n_i, is determined.  1D tensors are diagonal (eigenvectors = identity, eigenvalues = components in
   storage order, never sorted); in 2D the third eigenvector is the out-of-plane direction e3 and the third
   eigenvalue the component 33, whatever the ordering option (docs/web/tensors.md). *)
EXTENDS Mat3, Integers, Sequences, FiniteSets
Abs_(x) == IF x < 0 THEN -x ELSE x
Max2(a, b) == IF a >= b THEN a ELSE b
Min2(a, b) == IF a <= b THEN a ELSE b
\* TLC keeps [x \in S |-> e] (hence the matrices of Mat3) unevaluated and re-evaluates e at every application:
\* Ev forces a matrix into a tuple of tuples once (purely an evaluation-cost matter)
Ev(A) == <<<<A[1][1], A[1][2], A[1][3]>>, <<A[2][1], A[2][2], A[2][3]>>, <<A[3][1], A[3][2], A[3][3]>>>>
\* ---- exact decompositions ----
IsScaledRotation(M, n) == n > 0 /\ Ev(Mul(M, Transpose(M))) = Ev(Scale(n * n, Id3)) /\ Det(M) = n * n * n
DiagOf(l) == Diag(l[1], l[2], l[3])
TensorOf(M, l) == Ev(Mul(M, Ev(Mul(DiagOf(l), Transpose(M)))))
EigenOf(n, l) == <<n * n * l[1], n * n * l[2], n * n * l[3]>>
Col(M, j) == <<M[1][j], M[2][j], M[3][j]>>
\* n^2 x projector on the direction of column j
Dyad(M, j) == Ev(Mat(LAMBDA p, q : M[p][j] * M[q][j]))
\* invariants = coefficients of the characteristic polynomial x^3 - I1 x^2 + I2 x - I3
Inv1(A) == Trace(A)
Inv2(A) == A[1][1] * A[2][2] + A[1][1] * A[3][3] + A[2][2] * A[3][3] - A[1][2] * A[2][1] - A[1][3] * A[3][1] - A[2][3] * A[3][2]
Inv3(A) == Det(A)
RootsOfCharPoly(A, vp) == /\ Inv1(A) = vp[1] + vp[2] + vp[3]
                          /\ Inv2(A) = vp[1] * vp[2] + vp[1] * vp[3] + vp[2] * vp[3]
                          /\ Inv3(A) = vp[1] * vp[2] * vp[3]
\* (A, n, M, vp) is a spectral decomposition (exact statement, integers)
ValidDecomposition(A, n, M, vp) ==
  /\ IsSym(A) /\ IsScaledRotation(M, n)
  /\ Ev(Mul(A, M)) = Ev(Mul(M, DiagOf(vp)))                            \* A n_i = vp_i n_i
  /\ Ev(Scale(n * n, A)) = Ev(Mul(M, Ev(Mul(DiagOf(vp), Transpose(M)))))   \* A = sum vp_i n_i (x) n_i
\* ---- the finite set of exact rational rotations (n, M) ----
Px == <<<<5, 0, 0>>, <<0, 3, -4>>, <<0, 4, 3>>>>            \* (3,4,5) about e1
Py == <<<<3, 0, 4>>, <<0, 5, 0>>, <<-4, 0, 3>>>>            \* (3,4,5) about e2
Pz == <<<<3, -4, 0>>, <<4, 3, 0>>, <<0, 0, 5>>>>            \* (3,4,5) about e3
Pzb == <<<<4, -3, 0>>, <<3, 4, 0>>, <<0, 0, 5>>>>           \* (4,3,5) about e3
Pz13 == <<<<5, -12, 0>>, <<12, 5, 0>>, <<0, 0, 13>>>>       \* (5,12,13) about e3
Cz == <<<<0, -1, 0>>, <<1, 0, 0>>, <<0, 0, 1>>>>            \* quarter turn about e3
C111 == <<<<0, 0, 1>>, <<1, 0, 0>>, <<0, 1, 0>>>>           \* third of a turn about (1,1,1)
Q3 == Ev(QuatMat(<<1, 1, 1, 0>>))                               \* n = 3, no zero entry
Q3b == <<<<2, -1, 2>>, <<2, 2, -1>>, <<-1, 2, 2>>>>         \* n = 3
Q7 == Ev(QuatMat(<<2, 1, 1, 1>>))                               \* n = 7
R(n, M) == [n |-> n, M |-> Ev(M)]
RotZQuick == {R(1, Id3), R(1, Cz), R(5, Pz), R(13, Pz13)}
RotZAll == RotZQuick \cup {R(5, Pzb), R(25, Mul(Pz, Pz)), R(25, Mul(Pz, Pzb)), R(65, Mul(Pz, Pz13))}
Rot3Quick == {R(1, Id3), R(1, C111), R(5, Px), R(5, Pz), R(3, Q3), R(7, Q7), R(25, Mul(Px, Pz)), R(15, Mul(Q3, Px))}
Rot3All == Rot3Quick \cup {R(3, Q3b)} \cup {R(1, M) : M \in CubeRotations} \cup RotZAll
           \cup {R(5, Py), R(25, Mul(Py, Px)), R(21, Mul(Q3b, Q7)), R(35, Mul(Q7, Py)), R(125, Mul(Pz, Mul(Px, Py)))}
IsAboutZ(r) == r.M[3][3] = r.n /\ r.M[1][3] = 0 /\ r.M[2][3] = 0 /\ r.M[3][1] = 0 /\ r.M[3][2] = 0
\* ---- spectra (triples l; eigenvalues n^2 l) ----
P20 == 1048576
P26 == 67108864
Cube(S) == {<<a, b, c>> : a \in S, b \in S, c \in S}
\* widely separated magnitudes (power-of-two ratios), with sign changes, zero and repetition
Wide == {<<1, 1024, P20>>, <<P20, 1, 1024>>, <<-P20, 1, 1024>>, <<1, P20, P20>>, <<1, 1, P20>>, <<0, 1, P20>>,
         <<1024, -P20, P20>>, <<P20, 0, 0>>}
\* nearly repeated: relative separation 2^-20 .. 2^-22, beside a third value far, near or equal
Near == {<<P20, P20 + 1, 3 * P20>>, <<P20, P20 + 1, P20 + 2>>, <<P20 + 1, P20, P20>>, <<P20, P20 + 1, -P20>>,
         <<3 * P20, P20 + 1, P20>>, <<P20, 0, P20 + 1>>, <<-P20, -P20 - 1, 5>>}
\* relative separation 2^-26 (only with n <= 3 so that components stay below 2^31)
VeryNear == {<<P26, P26 + 1, P26 \div 2>>, <<P26, P26 + 1, P26 + 2>>, <<P26 + 1, -P26, P26>>, <<P26 + 1, P26, P26>>}
Fits(r, l) == LET m == Max2(Abs_(l[1]), Max2(Abs_(l[2]), Abs_(l[3]))) IN m <= 2147483647 \div (r.n * r.n * 3)
Kind(l) == IF l \in Wide THEN "wide" ELSE IF l \in Near \cup VeryNear THEN "near" ELSE "small"
\* ---- tolerances (binary exponents, relative to norm = max |vp|) ----
(* Documented accuracy: the benchmark tables of docs/web/release-notes-3.1.md and release-notes-5.0.md give, for
   double precision and 10^6 random tensors with components in [-1:1], the largest residual
   Delta_inf = max_i |s.v_i - lambda_i v_i|:
     TFELEIGENSOLVER 7.75e-14 (2^-43.6)   GTESYMMETRICQREIGENSOLVER 2.30e-15 (2^-48.6)  FSESJACOBIEIGENSOLVER 1.05e-15 (2^-49.8)
     FSESQLEIGENSOLVER 3.30e-15 (2^-48.1) FSESCUPPENEIGENSOLVER 5.79e-15 (2^-47.3)      FSESHYBRIDEIGENSOLVER 3.53e-10 (2^-31.4)
     FSESANALYTICALEIGENSOLVER 1.09e-9 (2^-29.8)                                        HARARIEIGENSOLVER 2.27e-14 (2^-45.3)
   DocExp is that figure rounded up to a power of two; Margin = 3 bits accounts for the norm of the lattice
   tensors (up to 3 max|vp| in components) and for the sup norm used by the harness. *)
Solvers == {"TFELEIGENSOLVER", "FSESANALYTICALEIGENSOLVER", "FSESJACOBIEIGENSOLVER", "FSESQLEIGENSOLVER",
            "FSESCUPPENEIGENSOLVER", "FSESHYBRIDEIGENSOLVER", "GTESYMMETRICQREIGENSOLVER", "HARARIEIGENSOLVER"}
DocExp(s) == CASE s = "TFELEIGENSOLVER" -> -43 [] s = "GTESYMMETRICQREIGENSOLVER" -> -48 [] s = "FSESJACOBIEIGENSOLVER" -> -49
               [] s = "FSESQLEIGENSOLVER" -> -48 [] s = "FSESCUPPENEIGENSOLVER" -> -47 [] s = "FSESHYBRIDEIGENSOLVER" -> -31
               [] s = "FSESANALYTICALEIGENSOLVER" -> -29 [] s = "HARARIEIGENSOLVER" -> -45
Margin == 3
(* The benchmark only covers generic (well separated) spectra.  For ill-conditioned spectra the tolerance is
   derived from the conditioning of the algorithm, fixed a priori:
     "stable"  orthogonal iterations (Jacobi, QL, symmetric QR): the documented accuracy whatever the spectrum;
     "gap"     Cuppen's divide and conquer: eigenvectors of close *distinct* eigenvalues lose orthogonality as
               eps / gap (at most 24 bits are conceded);
     "closed"  closed-form solvers (Cardano: TFEL, FSES analytical and hybrid; Harari): eigenvalues are roots of
               the characteristic cubic; a simple root separated by a relative gap g is accurate to eps / g and a
               cluster of m roots to eps^(1/m) - the tolerances 1e-6 (2^-20) for double and 1e-4 (2^-13) for
               triple clusters are those of C10 (Cubic.tla). *)
Class(s) == IF s \in {"FSESJACOBIEIGENSOLVER", "FSESQLEIGENSOLVER", "GTESYMMETRICQREIGENSOLVER"} THEN "stable"
            ELSE IF s = "FSESCUPPENEIGENSOLVER" THEN "gap" ELSE "closed"
Norm(E) == Max2(Abs_(E[1]), Max2(Abs_(E[2]), Abs_(E[3])))
Log2Floor(q) == CHOOSE c \in 0..29 : 2^c <= q /\ (c = 29 \/ q < 2^(c + 1))
\* number of leading bits shared by E[j] and E[k] relative to the norm: |E[j] - E[k]| <= norm / 2^bits  (60 = equal)
CloseBits(E, j, k) == IF E[j] = E[k] THEN 60
                      ELSE LET q == Norm(E) \div Abs_(E[j] - E[k]) IN IF q = 0 THEN 0 ELSE Log2Floor(q)
Others(j) == (1..3) \ {j}
MaxOver(S, f(_)) == CHOOSE x \in {f(k) : k \in S} : \A y \in {f(k) : k \in S} : y <= x
GapBits(E, j) == MaxOver(Others(j), LAMBDA k : CloseBits(E, j, k))
GapBitsDistinct(E, j) == MaxOver(Others(j), LAMBDA k : IF E[j] = E[k] THEN 0 ELSE CloseBits(E, j, k))
ClusterSize(E, j) == 1 + Cardinality({k \in Others(j) : CloseBits(E, j, k) >= 10})
ClusterCap(m) == IF m = 1 THEN 0 ELSE IF m = 2 THEN -20 ELSE -13
\* tolerance exponent for the expected eigenvalue j of the spectrum E (3D algorithms)
Tol3(s, E, j) ==
  LET base == DocExp(s) + Margin IN
  IF Class(s) = "stable" THEN base
  ELSE IF Class(s) = "gap" THEN base + Min2(24, GapBitsDistinct(E, j))
  ELSE Min2(ClusterCap(ClusterSize(E, j)), base + GapBits(E, j))
\* 2D: every solver falls back on the quadratic formula (no cancellation: eps-level), 1D: exact copies
Tol2 == -44
Tol(n, s, E, j) == IF n = 3 THEN Tol3(s, E, j) ELSE IF n = 2 THEN Tol2 ELSE -64
\* vector-level obligations (residual, orthonormality, reconstruction): the worst of the three
TolVec(n, s, E) == Max2(Tol(n, s, E, 1), Max2(Tol(n, s, E, 2), Tol(n, s, E, 3)))
Close(E, j, k) == CloseBits(E, j, k) >= 10
Cluster(E, j) == UNION {{k2 \in 1..3 : Close(E, k, k2)} : k \in {k \in 1..3 : Close(E, j, k)}}
\* everything the judge needs about a spectrum, computed once per observation
Profile(n, s, E) ==
  LET t == <<Tol(n, s, E, 1), Tol(n, s, E, 2), Tol(n, s, E, 3)>> IN
  [tol |-> t, tv |-> Max2(t[1], Max2(t[2], t[3])), cluster |-> <<Cluster(E, 1), Cluster(E, 2), Cluster(E, 3)>>]
\* ---- what an admissible answer is ----
LeOrd(ord, x, y) == IF ord = "asc" THEN x <= y ELSE x >= y
\* sigma[i] = index of the expected eigenvalue presented at position i
Admissible(n, ord, E, sigma) ==
  /\ {sigma[i] : i \in 1..3} = 1..3
  /\ IF n = 1 THEN \A i \in 1..3 : sigma[i] = i
     ELSE /\ (n = 2 => sigma[3] = 3)
          /\ (ord # "none" => \A i \in 1..((IF n = 2 THEN 2 ELSE 3) - 1) : LeOrd(ord, E[sigma[i]], E[sigma[i + 1]]))
Sigmas == {<<1, 2, 3>>, <<1, 3, 2>>, <<2, 1, 3>>, <<2, 3, 1>>, <<3, 1, 2>>, <<3, 2, 1>>}
\* the returned values are the expected multiset, in an admissible order (err = LOGERR matrix, P = Profile)
ValuesOk(n, ord, E, P, err) ==
  \E sigma \in Sigmas : (\A i \in 1..3 : err[i][sigma[i]] <= P.tol[sigma[i]]) /\ Admissible(n, ord, E, sigma)
\* eigenspaces: expected eigenvalues closer than 2^-10 norm form one cluster (its basis is arbitrary); the returned
\* vectors attached to a cluster must span the known eigenspace: sum of squared cosines = dimension (2^20 units)
SumOver(S, f(_)) == LET RECURSIVE Sm(_)
                        Sm(T) == IF T = {} THEN 0 ELSE LET x == CHOOSE x \in T : TRUE IN f(x) + Sm(T \ {x})
                    IN Sm(S)
OverlapSlack == 1024
SpacesOk(P, sigma, ov) ==
  \A j \in 1..3 : LET G == P.cluster[j]
                      I == {i \in 1..3 : sigma[i] \in G}
                      tot == SumOver(I \X G, LAMBDA p : ov[p[1]][p[2]])
                  IN tot >= 1048576 * Cardinality(G) - OverlapSlack /\ tot <= 1048576 * Cardinality(G) + OverlapSlack
VectorsOk(n, ord, E, P, err, ov) ==
  \E sigma \in Sigmas : /\ \A i \in 1..3 : err[i][sigma[i]] <= P.tol[sigma[i]]
                        /\ Admissible(n, ord, E, sigma)
                        /\ SpacesOk(P, sigma, ov)
\* computeEigenTensors is plain algebra on the returned vectors
TensExp == -46
\* ---- sanity of the definitions themselves (checked by TLC before generating) ----
SpecTheorems(check) ==
  /\ \A r \in Rot3All : IsScaledRotation(r.M, r.n)
  /\ \A r \in RotZAll : IsAboutZ(r)
  /\ \A r \in {x \in Rot3All : x.n <= 7} : \A l \in Cube(-2..3) :
        LET A == TensorOf(r.M, l) IN ValidDecomposition(A, r.n, r.M, EigenOf(r.n, l)) /\ RootsOfCharPoly(A, EigenOf(r.n, l))
  /\ \A r \in Rot3All : \A l \in {<<1, 2, 3>>, <<-1, 0, 2>>, <<2, 2, -1>>} :
        ValidDecomposition(TensorOf(r.M, l), r.n, r.M, EigenOf(r.n, l))
  \* sum of the dyads = n^2 Id (completeness), dyads of equal eigenvalues add up to the eigenspace projector
  /\ \A r \in Rot3All : Ev(Add(Dyad(r.M, 1), Add(Dyad(r.M, 2), Dyad(r.M, 3)))) = Ev(Scale(r.n * r.n, Id3))
  \* tolerances: examples
  /\ Tol3("FSESJACOBIEIGENSOLVER", <<1, 1, 2>>, 1) = -46
  /\ Tol3("TFELEIGENSOLVER", <<1, 2, 3>>, 2) = -39 /\ Tol3("TFELEIGENSOLVER", <<1, 1, 2>>, 1) = -20
  /\ Tol3("TFELEIGENSOLVER", <<1, 1, 2>>, 3) = -39 /\ Tol3("TFELEIGENSOLVER", <<5, 5, 5>>, 2) = -13
  /\ Tol3("FSESCUPPENEIGENSOLVER", <<1, 1, 2>>, 1) = -43 /\ Tol3("FSESCUPPENEIGENSOLVER", <<P20, P20 + 1, 3 * P20>>, 1) = -23
  /\ Cluster(<<P20, P20 + 1, 3 * P20>>, 1) = {1, 2} /\ Cluster(<<1, 2, 3>>, 1) = {1} /\ Cluster(<<0, 0, 0>>, 3) = {1, 2, 3}
  /\ Admissible(3, "asc", <<2, 1, 1>>, <<2, 3, 1>>) /\ Admissible(3, "asc", <<2, 1, 1>>, <<3, 2, 1>>) /\ ~Admissible(3, "asc", <<2, 1, 1>>, <<1, 2, 3>>)
  /\ Admissible(2, "desc", <<1, 2, 9>>, <<2, 1, 3>>) /\ ~Admissible(2, "desc", <<1, 2, 9>>, <<3, 2, 1>>) /\ ~Admissible(1, "asc", <<2, 1, 3>>, <<2, 1, 3>>)
=============================================================================

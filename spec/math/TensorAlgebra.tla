---------------------------- MODULE TensorAlgebra ----------------------------
\* C02 - unsymmetric tensors and fourth-order tensors = 3x3 matrices and 3x3x3x3 arrays in index notation.
\* A tensor of dimension n is given by nine integer components in TFEL's order 11 22 33 12 21 13 31 23 32
\* (the missing ones are zero) and means the matrix FullOf(c) ; a symmetric tensor is given by six integer matrix
\* components 11 22 33 12 13 23 and means SymOf(c) ; fourth-order tensors are given by reduced arrays (Tens4.tla).
\* Every expected value below is an integer (array) computed from the index-notation definition ; where the
\* mathematical result is rational the observation is the result multiplied by the integer named in the comment.
EXTENDS Tens4, Mat3, Integers, Sequences, FiniteSets, TLC
T(c) == FullOf(c)
S(c) == SymOf(c)
\* ============================ second-order tensors ============================
\* ---- one tensor a ----
ETr(a)     == Trace(T(a))
EDet(a)    == Det(T(a))
ETransp(a) == Comp9Of(Transpose(T(a)))
EAdj(a)    == Comp9Of(Adj(T(a)))                                  \* det . inverse
ESyme2(a)  == CompOf(Sym2(T(a)))                                  \* 2 . syme
ERCG(a)    == CompOf(Mul(Transpose(T(a)), T(a)))                  \* C = tF.F
ELCG(a)    == CompOf(Mul(T(a), Transpose(T(a))))                  \* B = F.tF
EGL2(a)    == CompOf(Sub(Mul(Transpose(T(a)), T(a)), Id3))        \* 2 . E_GL = C - I
ECof(a)    == Comp9Of(Transpose(Adj(T(a))))                       \* d det / dF_ij = cofactor_ij
EGet(a)    == RowMajor(T(a))
\* ---- two tensors a, b ----
EProd(a, b) == Comp9Of(Mul(T(a), T(b)))                           \* (a.b)_ij = a_ik b_kj
EDot(a, b)  == Contract(T(a), T(b))                               \* a : b = a_ij b_ij
EAdd(a, b)  == Comp9Of(Add(T(a), T(b)))
ESub(a, b)  == Comp9Of(Sub(T(a), T(b)))
\* ---- symmetric tensors s, s2 and a tensor a ----
EUnsyme(s)     == Comp9Of(S(s))
ESA(s, a)      == Comp9Of(Mul(S(s), T(a)))
EAS(a, s)      == Comp9Of(Mul(T(a), S(s)))
ESS(s, s2)     == Comp9Of(Mul(S(s), S(s2)))
EAddTS(a, s)   == Comp9Of(Add(T(a), S(s)))
EPushFwd(s, a) == CompOf(Mul(T(a), Mul(S(s), Transpose(T(a)))))  \* F.s.tF
EPK1(s, a)     == Comp9Of(Mul(S(s), Transpose(Adj(T(a)))))        \* P = J s.F^-T = s . cofactor(F)
EPK2d(s, a)    == CompOf(Mul(Adj(T(a)), Mul(S(s), Transpose(Adj(T(a))))))   \* det . (J F^-1.s.F^-T)
ECauchyd(s, a) == CompOf(Mul(T(a), Mul(S(s), Transpose(T(a)))))  \* det . (F.p.tF / J)
\* ---- change of basis by R = M / d (columns of R = new basis vectors): d^2 . tR.A.R ----
ERot(a, M) == Comp9Of(ChangeBasis(T(a), M))
\* ============================ fourth-order tensors ============================
\* ---- special values ----
Id4(i, j, k, l)   == Dl(i, k) * Dl(j, l)                          \* t2tot2 identity
Tr4(i, j, k, l)   == Dl(i, l) * Dl(j, k)                          \* transposition: (Tr4 : A) = tA
IdS2(i, j, k, l)  == Id4(i, j, k, l) + Tr4(i, j, k, l)            \* 2 . st2tost2 identity
IxI(i, j, k, l)   == Dl(i, j) * Dl(k, l)
ESpecial(n) == [ssId2 |-> RedSS(n, IdS2), ssIxI |-> RedSS(n, IxI),
                ssJ3 |-> RedSS(n, IxI),                                                \* 3 . J
                ssK6 |-> RedSS(n, LAMBDA i, j, k, l : (3 * IdS2(i, j, k, l)) - (2 * IxI(i, j, k, l))),     \* 6 . K
                ssM4 |-> RedSS(n, LAMBDA i, j, k, l : (3 * IdS2(i, j, k, l)) - (2 * IxI(i, j, k, l))),     \* 4 . M = 6 . K
                ttId |-> RedTT(n, Id4), ttIxI |-> RedTT(n, IxI),
                ttK3 |-> RedTT(n, LAMBDA i, j, k, l : (3 * Id4(i, j, k, l)) - IxI(i, j, k, l)),            \* 3 . K
                ttTD |-> RedTT(n, Tr4),
                tId |-> Comp9Of(Id3), sId |-> CompOf(Id3)]
\* ---- dyadic products ----
Dyad(A, B, i, j, k, l) == A[i][j] * B[k][l]
EDyadTT(n, a, b)  == RedTT(n, LAMBDA i, j, k, l : Dyad(T(a), T(b), i, j, k, l))
EDyadSS(n, s, s2) == RedSS(n, LAMBDA i, j, k, l : Dyad(S(s), S(s2), i, j, k, l))
EDyadTS(n, s, a)  == RedTS(n, LAMBDA i, j, k, l : Dyad(S(s), T(a), i, j, k, l))      \* s ^ a : t2tost2
EDyadST(n, a, s)  == RedST(n, LAMBDA i, j, k, l : Dyad(T(a), S(s), i, j, k, l))      \* a ^ s : st2tot2
\* ---- derivatives of products (index notation of d(A.B)_ij / dA_kl and d(A.B)_ij / dB_kl) ----
Tpld(B, i, j, k, l) == Dl(i, k) * B[l][j]
Tprd(A, i, j, k, l) == A[i][k] * Dl(j, l)
ETpld(n, b) == RedTT(n, LAMBDA i, j, k, l : Tpld(T(b), i, j, k, l))
ETprd(n, a) == RedTT(n, LAMBDA i, j, k, l : Tprd(T(a), i, j, k, l))
\* same with a symmetric argument: the derivative is symmetrised over (k, l) ; observation = 2 . result
ESTpld2(n, s) == RedST(n, LAMBDA i, j, k, l : Tpld(S(s), i, j, k, l) + Tpld(S(s), i, j, l, k))
ESTprd2(n, s) == RedST(n, LAMBDA i, j, k, l : Tprd(S(s), i, j, k, l) + Tprd(S(s), i, j, l, k))
\* C = tF.F : dC_ij / dF_kl = d_il F_kj + F_ki d_jl ;  B = F.tF : dB_ij / dF_kl = d_ik F_jl + F_il d_jk
EdCdF(n, a) == RedTS(n, LAMBDA i, j, k, l : (Dl(i, l) * T(a)[k][j]) + (T(a)[k][i] * Dl(j, l)))
EdBdF(n, a) == RedTS(n, LAMBDA i, j, k, l : (Dl(i, k) * T(a)[j][l]) + (T(a)[i][l] * Dl(j, k)))
\* d(s.s)/ds, symmetrised: 2 . result
DSq2(A, i, j, k, l) == (Dl(i, k) * A[l][j]) + (A[i][k] * Dl(j, l)) + (Dl(i, l) * A[k][j]) + (A[i][l] * Dl(j, k))
EDSquare2(n, s) == RedSS(n, LAMBDA i, j, k, l : DSq2(S(s), i, j, k, l))
\* st2tost2::stpd(b) is documented in st2tost2.hxx as d(a.b + b.a)/da = (1/2) DSq2(b) ; observation = 2 . result
\* (docs/web/tensors.md calls it the derivative of the symmetric product (a.b + b.a)/2, which is half of that: the
\* header comment, which the code follows, is taken as the definition)
EStpd2(n, s) == EDSquare2(n, s)
\* d(F.s.tF)_ij / ds_kl = F_ik F_jl, symmetrised: 2 . result
PFD2(F, i, j, k, l) == (F[i][k] * F[j][l]) + (F[i][l] * F[j][k])
EPFD2(n, a) == RedSS(n, LAMBDA i, j, k, l : PFD2(T(a), i, j, k, l))
\* rotation as a fourth-order tensor: (Rot4 : A) = tR.A.R, Rot4_ijkl = R_ki R_lj ; d^2 . result (2 d^2 when symmetrised)
Rot4(M, i, j, k, l) == M[k][i] * M[l][j]
ERotTT(n, M)  == RedTT(n, LAMBDA i, j, k, l : Rot4(M, i, j, k, l))
ERotSS2(n, M) == RedSS(n, LAMBDA i, j, k, l : Rot4(M, i, j, k, l) + Rot4(M, i, j, l, k))
\* ---- products (double contraction) and applications of reduced operands ----
EProducts(n, x, y) ==
  [ss_ss |-> RedSS(n, LAMBDA i, j, k, l : Sum9(LAMBDA p, q : Tss(x.ss, i, j, p, q) * Tss(y.ss, p, q, k, l))),
   tt_tt |-> RedTT(n, LAMBDA i, j, k, l : Sum9(LAMBDA p, q : Ttt(x.tt, i, j, p, q) * Ttt(y.tt, p, q, k, l))),
   ts_tt |-> RedTS(n, LAMBDA i, j, k, l : Sum9(LAMBDA p, q : Tts(x.ts, i, j, p, q) * Ttt(y.tt, p, q, k, l))),
   ss_ts |-> RedTS(n, LAMBDA i, j, k, l : Sum9(LAMBDA p, q : Tss(x.ss, i, j, p, q) * Tts(y.ts, p, q, k, l))),
   tt_st |-> RedST(n, LAMBDA i, j, k, l : Sum9(LAMBDA p, q : Ttt(x.tt, i, j, p, q) * Tst(y.st, p, q, k, l))),
   st_ss |-> RedST(n, LAMBDA i, j, k, l : Sum9(LAMBDA p, q : Tst(x.st, i, j, p, q) * Tss(y.ss, p, q, k, l))),
   st_ts |-> RedTT(n, LAMBDA i, j, k, l : Sum9(LAMBDA p, q : Tst(x.st, i, j, p, q) * Tts(y.ts, p, q, k, l))),
   ts_st |-> RedSS(n, LAMBDA i, j, k, l : Sum9(LAMBDA p, q : Tts(x.ts, i, j, p, q) * Tst(y.st, p, q, k, l)))]
EApplications(n, x, a, s) ==
  [tt_a |-> Comp9Of(Apply(LAMBDA i, j, k, l : Ttt(x.tt, i, j, k, l), T(a))),
   a_tt |-> Comp9Of(ApplyLeft(T(a), LAMBDA i, j, k, l : Ttt(x.tt, i, j, k, l))),
   ss_s |-> CompOf(Apply(LAMBDA i, j, k, l : Tss(x.ss, i, j, k, l), S(s))),
   s_ss |-> CompOf(ApplyLeft(S(s), LAMBDA i, j, k, l : Tss(x.ss, i, j, k, l))),
   ts_a |-> CompOf(Apply(LAMBDA i, j, k, l : Tts(x.ts, i, j, k, l), T(a))),
   s_ts |-> Comp9Of(ApplyLeft(S(s), LAMBDA i, j, k, l : Tts(x.ts, i, j, k, l))),
   st_s |-> Comp9Of(Apply(LAMBDA i, j, k, l : Tst(x.st, i, j, k, l), S(s))),
   a_st |-> CompOf(ApplyLeft(T(a), LAMBDA i, j, k, l : Tst(x.st, i, j, k, l)))]
\* transposition (major symmetry swap), conversions between storage classes, component access
EConversions(n, x) ==
  [transp  |-> RedSS(n, LAMBDA i, j, k, l : Tss(x.ss, k, l, i, j)),
   \* st2tost2::convert(t2tost2): restriction to symmetric arguments = symmetrisation over (k, l) ; 2 . result
   ss_of_ts2 |-> RedSS(n, LAMBDA i, j, k, l : Tts(x.ts, i, j, k, l) + Tts(x.ts, i, j, l, k)),
   \* t2tot2(t2tost2): same tensor, unsymmetric storage of the result
   tt_of_ts |-> RedTT(n, LAMBDA i, j, k, l : Tts(x.ts, i, j, k, l)),
   \* convertToT2toST2(t2tot2): symmetric part of the result ; 2 . result
   ts_of_tt2 |-> RedTS(n, LAMBDA i, j, k, l : Ttt(x.tt, i, j, k, l) + Ttt(x.tt, j, i, k, l)),
   getc |-> Full81(LAMBDA i, j, k, l : IF SI(i, j) <= NS(n) /\ SI(k, l) <= NS(n) THEN Tss(x.ss, i, j, k, l) ELSE 0),
   setc |-> RedSS(n, LAMBDA i, j, k, l : Tss(x.ss, i, j, k, l)),
   \* trace of a st2tost2 (ST2toST2Concept.hxx): I :: A = (A_ijij + A_ijji) / 2 ; 2 . result
   tr2 |-> Sum9(LAMBDA i, j : Tss(x.ss, i, j, i, j) + Tss(x.ss, i, j, j, i))]
\* chain rule forms: tpld(B, C) = tpld(B) : C etc.
EChained(n, y, a, s) ==
  [tpldC |-> RedTT(n, LAMBDA i, j, k, l : Sum9(LAMBDA p, q : Tpld(T(a), i, j, p, q) * Ttt(y.tt, p, q, k, l))),
   tprdC |-> RedTT(n, LAMBDA i, j, k, l : Sum9(LAMBDA p, q : Tprd(T(a), i, j, p, q) * Ttt(y.tt, p, q, k, l))),
   stpldC |-> RedST(n, LAMBDA i, j, k, l : Sum9(LAMBDA p, q : Tpld(S(s), i, j, p, q) * Tss(y.ss, p, q, k, l))),
   stprdC |-> RedST(n, LAMBDA i, j, k, l : Sum9(LAMBDA p, q : Tprd(S(s), i, j, p, q) * Tss(y.ss, p, q, k, l))),
   \* 2 . dsquare(s, C): the (p, q)-symmetrised derivative contracted with C (C has symmetric results)
   dsqC2 |-> RedSS(n, LAMBDA i, j, k, l : Sum9(LAMBDA p, q : 2 * ((Dl(i, p) * S(s)[q][j]) + (S(s)[i][p] * Dl(q, j))) * Tss(y.ss, p, q, k, l)))]
\* ---- change of basis and push-forward of fourth-order tensors ----
\* C'_ijkl = A_mi A_nj B_pk B_ql C_mnpq, contracted in two stages (first (p, q), then (m, n)) ; the one-stage
\* 81-term formula is compared with the staged one in OracleTheorems.
Stage2(A, B, C(_, _, _, _)) ==
  LET half == TLCEval([q \in 1..81 |-> LET r == q - 1 m == (r \div 27) + 1 n == ((r \div 9) % 3) + 1 k == ((r \div 3) % 3) + 1 l == (r % 3) + 1
                                      IN Sum9(LAMBDA p, qq : B[p][k] * B[qq][l] * C(m, n, p, qq))])
      H(m, n, k, l) == half[((m - 1) * 27) + ((n - 1) * 9) + ((k - 1) * 3) + l]
  IN  TLCEval([q \in 1..81 |-> LET r == q - 1 i == (r \div 27) + 1 j == ((r \div 9) % 3) + 1 k == ((r \div 3) % 3) + 1 l == (r % 3) + 1
                               IN Sum9(LAMBDA m, n : A[m][i] * A[n][j] * H(m, n, k, l))])
At81(f, i, j, k, l) == f[((i - 1) * 27) + ((j - 1) * 9) + ((k - 1) * 3) + l]
OneStage(A, C(_, _, _, _), i, j, k, l) ==
  Sum9(LAMBDA m, n : Sum9(LAMBDA p, q : A[m][i] * A[n][j] * A[p][k] * A[q][l] * C(m, n, p, q)))
\* change of basis by R = M / d: d^4 . result ; rotation of a tensor is tR.A.R, hence C'_ijkl = R_mi R_nj R_pk R_ql C_mnpq
ECBss(n, x, M) == LET f == Stage2(M, M, LAMBDA i, j, k, l : Tss(x.ss, i, j, k, l)) IN RedSS(n, LAMBDA i, j, k, l : At81(f, i, j, k, l))
ECBtt(n, x, M) == LET f == Stage2(M, M, LAMBDA i, j, k, l : Ttt(x.tt, i, j, k, l)) IN RedTT(n, LAMBDA i, j, k, l : At81(f, i, j, k, l))
ECBts(n, x, M) == LET f == Stage2(M, M, LAMBDA i, j, k, l : Tts(x.ts, i, j, k, l)) IN RedTS(n, LAMBDA i, j, k, l : At81(f, i, j, k, l))
\* push-forward Ct_ijkl = F_im F_jn F_kp F_lq C_mnpq (st2tost2.hxx): the same contraction with tF
EPFss(n, x, a) == LET Ft == Transpose(T(a)) f == Stage2(Ft, Ft, LAMBDA i, j, k, l : Tss(x.ss, i, j, k, l)) IN RedSS(n, LAMBDA i, j, k, l : At81(f, i, j, k, l))
\* pull-back = push-forward by F^-1 ; for det F = +-1, F^-1 = det . Adj(F) and the sign cancels (four factors)
EPBss(n, x, g) == LET Gt == Transpose(Adj(T(g))) f == Stage2(Gt, Gt, LAMBDA i, j, k, l : Tss(x.ss, i, j, k, l)) IN RedSS(n, LAMBDA i, j, k, l : At81(f, i, j, k, l))
\* ---- inverse of a st2tost2: y = k . x^-1  iff  x : y = y : x = k . Id  (2k . IdS2 / 2) ----
IsInverseSS(n, x, y, k) ==
  /\ RedSS(n, LAMBDA i, j, m, nn : 2 * Sum9(LAMBDA p, q : Tss(x, i, j, p, q) * Tss(y, p, q, m, nn))) = RedSS(n, LAMBDA i, j, m, nn : k * IdS2(i, j, m, nn))
  /\ RedSS(n, LAMBDA i, j, m, nn : 2 * Sum9(LAMBDA p, q : Tss(y, i, j, p, q) * Tss(x, p, q, m, nn))) = RedSS(n, LAMBDA i, j, m, nn : k * IdS2(i, j, m, nn))
\* ============================ sanity theorems of the oracle, checked by TLC ============================
Probe9 == {<<1, 2, 3, 4, 5, 6, 7, 8, 9>>, <<1, -1, 2, 0, 3, -2, 1, 1, -3>>, <<0, 0, 1, 1, 0, 0, 2, -1, 0>>, <<2, 1, 1, 0, 0, 0, 0, 0, 0>>}
Probe6 == {<<1, 2, 3, 4, 5, 6>>, <<1, 0, -1, 2, -2, 1>>, <<0, 0, 0, 1, 0, 0>>}
GenSS == [q \in 1..36 |-> (((Row(q, 6) * Row(q, 6)) + (2 * Col(q, 6)) + (Row(q, 6) * Col(q, 6))) % 7) - 3]
\* (an operator of a dummy argument: TLC evaluates zero-arity constant definitions at start-up, the judge must not pay for them)
OracleTheorems(dummy) ==
  /\ \A a \in Probe9 : LET A == T(a) IN
        /\ Mul(Adj(A), A) = Scale(Det(A), Id3) /\ Mul(A, Adj(A)) = Scale(Det(A), Id3)
        /\ FullOf(Comp9Of(A)) = A /\ OfRowMajor(RowMajor(A)) = A
        /\ Det(Transpose(A)) = Det(A)
        \* the fourth-order derivatives reproduce the products they differentiate (linearity in the argument)
        /\ \A b \in Probe9 : LET B == T(b) IN
              /\ Apply(LAMBDA i, j, k, l : Tpld(B, i, j, k, l), A) = Mul(A, B)
              /\ Apply(LAMBDA i, j, k, l : Tprd(A, i, j, k, l), B) = Mul(A, B)
              /\ Apply(LAMBDA i, j, k, l : Dyad(A, B, i, j, k, l), B) = Scale(Contract(B, B), A)
              /\ Det(Mul(A, B)) = Det(A) * Det(B)
        /\ Apply(Tr4, A) = Transpose(A) /\ Apply(Id4, A) = A /\ Apply(IxI, A) = Scale(Trace(A), Id3)
        /\ Apply(IdS2, A) = Sym2(A)
        \* dC/dF and dB/dF: derivative of the quadratic maps along A itself = 2 . value
        /\ Apply(LAMBDA i, j, k, l : (Dl(i, l) * A[k][j]) + (A[k][i] * Dl(j, l)), A) = Scale(2, Mul(Transpose(A), A))
        /\ Apply(LAMBDA i, j, k, l : (Dl(i, k) * A[j][l]) + (A[i][l] * Dl(j, k)), A) = Scale(2, Mul(A, Transpose(A)))
        /\ \A s \in Probe6 : LET Sm == S(s) IN
              /\ Apply(LAMBDA i, j, k, l : PFD2(A, i, j, k, l), Sm) = Scale(2, Mul(A, Mul(Sm, Transpose(A))))
              /\ Apply(LAMBDA i, j, k, l : DSq2(Sm, i, j, k, l), Sm) = Scale(4, Mul(Sm, Sm))
              /\ SymLeft(LAMBDA i, j, k, l : DSq2(Sm, i, j, k, l)) /\ SymRight(LAMBDA i, j, k, l : DSq2(Sm, i, j, k, l))
              /\ SymLeft(LAMBDA i, j, k, l : PFD2(A, i, j, k, l)) /\ SymRight(LAMBDA i, j, k, l : PFD2(A, i, j, k, l))
  /\ \A R \in CubeRotations : \A a \in Probe9 :
        /\ Apply(LAMBDA i, j, k, l : Rot4(R, i, j, k, l), T(a)) = ChangeBasis(T(a), R)
        \* staged and one-stage contractions agree ; rotating the identity and IxI leaves them unchanged
        /\ LET f == Stage2(R, R, LAMBDA i2, j2, k2, l2 : Dyad(T(a), T(a), i2, j2, k2, l2)) Ar == TLCEval(ChangeBasis(T(a), R))
           IN  RedTT(3, LAMBDA i, j, k, l : At81(f, i, j, k, l)) = RedTT(3, LAMBDA i, j, k, l : Dyad(Ar, Ar, i, j, k, l))
  /\ LET R == <<<<0, -1, 0>>, <<1, 0, 0>>, <<0, 0, 1>>>> f == Stage2(R, R, LAMBDA i, j, k, l : Tss(GenSS, i, j, k, l))
     IN  \A i, j, k, l \in I3 : At81(f, i, j, k, l) = OneStage(R, LAMBDA i2, j2, k2, l2 : Tss(GenSS, i2, j2, k2, l2), i, j, k, l)
  /\ RedSS(3, LAMBDA i, j, k, l : Tss(GenSS, i, j, k, l)) = GenSS
  /\ \A i, j \in I3 : SP[SI(i, j)] \in {<<i, j>>, <<j, i>>} /\ FP[FI(i, j)] = <<i, j>>
=============================================================================

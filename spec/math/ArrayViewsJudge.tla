-------------------------- MODULE ArrayViewsJudge --------------------------
\* JUDGE for C17: every observation of the generated harness against the naive element-wise meaning (ArrayViews.tla).
\* An observation carries the program and the final buffer (exact integers ; `loose` is non-empty when a value was not an
\* integer, which the oracle never produces).
EXTENDS ArrayViews, Judge
Eq(name, got, want) == IF got = want THEN {} ELSE {name}
FailsAddr(o) ==
  LET cs == ViewCells(o.v, o.off) IN
     Eq("read:" \o o.v.k, o.read, AddrRead(o.buf, cs)) \cup Eq("write:" \o o.v.k, o.out, AddrWrite(o.buf, cs))
     \* the same view taken on a const host reads the same cells; the accessor taking an array of indices agrees with the variadic one
     \cup (IF "readc" \in DOMAIN o THEN Eq("read-through-const:" \o o.v.k, o.readc, AddrRead(o.buf, cs)) ELSE {})
     \cup (IF "arrsame" \in DOMAIN o /\ o.arrsame # 1 THEN {"array-index-accessor:" \o o.v.k} ELSE {})
     \cup (IF o.v.k \in {"vecview", "matview"} THEN Eq("minimal_size:" \o o.v.k, o.minsize, MinimalSize(cs, o.off)) ELSE {})
Class(o) == IF \E s \in Leaves(o.tree) \cap {1, 2} : Overlaps(o, s) /\ ~ExactAlias(o, s) THEN "shifted_alias"
            ELSE IF \E s \in Leaves(o.tree) \cap {1, 2} : ExactAlias(o, s) THEN "exact_alias"
            ELSE IF 3 \in Leaves(o.tree) THEN "self" ELSE "plain"
FailsExpr(o) ==
  LET r == Run(o) IN
     (IF r.ok THEN {} ELSE {"oracle_inexact_division"})
     \cup Eq("expr:" \o o.fam \o ":" \o Class(o), o.out, r.mem)
FailsProd(o) ==
  LET e == ProdExpected(o) n == Len(e) IN
     Eq("prod:" \o o.what, o.res, e)
     \* the destination region of the buffer holds the result, every other cell is untouched
     \cup Eq("prod_buffer:" \o o.what, o.out, [q \in 1..Len(o.buf) |-> IF q > o.doff /\ q <= o.doff + n THEN e[q - o.doff] ELSE o.buf[q]])
Fails(o) == (CASE o.kind = "addr" -> FailsAddr(o) [] o.kind = "expr" -> FailsExpr(o) [] o.kind = "prod" -> FailsProd(o)
               [] OTHER -> {"unknown_kind"})
            \cup {"inexact:" \o o.loose[i] : i \in 1..Len(o.loose)}
ASSUME JudgeAll(Fails)
=============================================================================

----------------------------- MODULE QuantityJudge -----------------------------
(* JUDGE for C20.  Observation = the case (e, env, vals, K) plus
     compiles : the program compiled for these variable types
     rk, ru   : kind of the result ("qt" | "raw" | "bool" | "other" | "none") and its 7 exponents <<n, d>>
     vq, tight: EXACT abstraction of the value with scaling K; cls: floating-point class
     same     : the value is bitwise that of the same program text evaluated on doubles
     alone    : -1, or the outcome (1 = compiles) of compiling this one program stand-alone *)
EXTENDS Quantity, Judge
Check(name, b) == IF b THEN {} ELSE {name}
Fails(o) ==
  LET t == TypeOf(o.e, o.env)
      v == ValOf(o.e, o.vals)
      r == RootOp(o.e)
      well == t.q # "ill"
  IN  IF o.kind = "catalogue"
      THEN Check("catalogue:" \o o.env[1].name, o.compiles /\ o.rk = "qt" /\ o.ru = o.env[1].u /\ o.env[1].u = NamedUnit(o.env[1].name))
      ELSE
        \* soundness: an ill-dimensioned program does not compile
        Check("compiles-ill-dimensioned:" \o r, well \/ ~o.compiles)
        \* and (transparency presupposes it) a well-dimensioned one does.  Programs over views (qt_ref, const_qt_ref) or over
        \* non-canonical spellings of a unit type get their own names: the driver reports those as notes, the statement
        \* is about quantities
        \cup Check((IF \E i \in 1..3 : o.env[i].q \in {"ref", "cref"} THEN "view-"
                    ELSE IF \E i \in 1..3 : o.env[i].spell # "canon" THEN "spelling-" ELSE "") \o "rejects-well-dimensioned:" \o r,
                  ~well \/ o.compiles)
        \cup Check("standalone-disagrees:" \o r, o.alone = -1 \/ (o.alone = 1) = o.compiles)
        \cup (IF well /\ o.compiles
              THEN Check("kind:" \o r, o.rk = t.q)
                   \cup Check("unit:" \o r, t.q # "qt" \/ o.rk # "qt" \/ (IsUnit(o.ru) /\ o.ru = t.u))
                   \cup Check("value:" \o r, ~Def(v) \/ (o.K = v[2] /\ o.tight /\ o.vq = v[1]))
                   \cup Check("transparent:" \o r, o.same)
              ELSE {})
ASSUME JudgeAll(Fails)
=============================================================================

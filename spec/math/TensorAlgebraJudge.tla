------------------------- MODULE TensorAlgebraJudge -------------------------
\* JUDGE for C02: every observation of harness/tensor4.cxx against the index-notation meaning (TensorAlgebra.tla).
\* An observation carries the case (kind, n, operands) and, per operation, the nearest integers of the exactly
\* rescaled result ; `loose` lists the operations whose result was not within tolerance of an integer.
EXTENDS TensorAlgebra, Judge
Eq(name, got, want) == IF got = want THEN {} ELSE {name}
\* compare every field of the record `want` with the field of the same name of the observation
EqAll(o, want) == {f \in DOMAIN want : o[f] # want[f]}
FailsTu(o) ==
  LET a == o.a IN
     Eq("trace", o.tr, ETr(a)) \cup Eq("det", o.det, EDet(a)) \cup Eq("transpose", o.transp, ETransp(a))
     \cup (IF EDet(a) # 0 THEN Eq("invert", o.adj, EAdj(a)) ELSE {})
     \cup Eq("syme", o.syme2, ESyme2(a)) \cup Eq("computeRightCauchyGreenTensor", o.rcg, ERCG(a))
     \cup Eq("computeLeftCauchyGreenTensor", o.lcg, ELCG(a)) \cup Eq("computeGreenLagrangeTensor", o.gl2, EGL2(a))
     \cup Eq("computeDeterminantDerivative", o.ddet, ECof(a)) \cup Eq("matrix_access", o.get, EGet(a))
     \cup Eq("matrix_view", o.mview, EGet(a)) \cup Eq("buildFromFortranMatrix", o.fortran, a)
     \cup Eq("transpose_transpose", o.ttransp, a)
FailsTb(o) ==
     Eq("product", o.prod, EProd(o.a, o.b)) \cup Eq("contraction", o.dot, EDot(o.a, o.b))
     \cup Eq("add", o.add, EAdd(o.a, o.b)) \cup Eq("sub", o.sub, ESub(o.a, o.b))
     \cup Eq("dyadic_tt", o.dyad, EDyadTT(o.n, o.a, o.b))
     \cup Eq("product_transpose", o.prodt, EProd(ETransp(o.b), ETransp(o.a)))        \* t(a.b) = tb.ta through the transpose view
FailsTs(o) ==
  LET s == o.s a == o.a d == EDet(a) IN
     Eq("unsyme", o.unsyme, EUnsyme(s)) \cup Eq("syme_unsyme", o.symunsym, s)
     \cup Eq("stensor_tensor_product", o.sa, ESA(s, a)) \cup Eq("tensor_stensor_product", o.as, EAS(a, s))
     \cup Eq("stensor_stensor_product", o.ss, ESS(s, o.s2)) \cup Eq("tensor_plus_stensor", o.addts, EAddTS(a, s))
     \cup Eq("push_forward", o.pf, EPushFwd(s, a))
     \cup Eq("convertCauchyStressToFirstPiolaKirchhoffStress", o.pk1, EPK1(s, a))
     \cup (IF d # 0 THEN Eq("convertFirstPiolaKirchhoffStressToCauchyStress", o.pk1back, s)
                         \cup Eq("convertCauchyStressToSecondPiolaKirchhoffStress", o.pk2d, EPK2d(s, a))
                         \cup Eq("convertSecondPiolaKirchhoffStressToCauchyStress", o.cauchyd, ECauchyd(s, a)) ELSE {})
     \cup Eq("dyadic_ss", o.dyss, EDyadSS(o.n, s, o.s2)) \cup Eq("dyadic_ts", o.dyts, EDyadTS(o.n, s, a))
     \cup Eq("dyadic_st", o.dyst, EDyadST(o.n, a, s))
FailsTRot(o) ==
  LET M == OfRowMajor(o.m) IN
     Eq("change_basis", o.rot, ERot(o.a, M)) \cup Eq("t2tot2_fromRotationMatrix", o.rtt, ERotTT(o.n, M))
     \cup Eq("st2tost2_fromRotationMatrix", o.rss2, ERotSS2(o.n, M))
\* F = R.U was built from R = rm / rd and U = um / ud: the decomposition is unique, the factors must come back
FailsPolar(o) ==
  LET R == T(o.rm) U == S(o.um) IN
     Eq("polar_R", o.r, o.rm) \cup Eq("polar_U", o.u, o.um)
     \* the construction itself: R is rd times a rotation, U is symmetric
     \cup (IF Mul(Transpose(R), R) = Scale(o.rd * o.rd, Id3) /\ Det(R) = o.rd * o.rd * o.rd THEN {} ELSE {"oracle_R_not_a_rotation"})
FailsSpecial(o) == EqAll(o, ESpecial(o.n))
FailsD4(o) ==
  LET n == o.n IN
     Eq("t2tot2_tpld", o.tpld, ETpld(n, o.b)) \cup Eq("t2tot2_tprd", o.tprd, ETprd(n, o.a))
     \cup Eq("st2tot2_tpld", o.stpld2, ESTpld2(n, o.s)) \cup Eq("st2tot2_tprd", o.stprd2, ESTprd2(n, o.s))
     \cup Eq("dCdF", o.dCdF, EdCdF(n, o.a)) \cup Eq("dBdF", o.dBdF, EdBdF(n, o.a))
     \cup Eq("dsquare", o.dsq2, EDSquare2(n, o.s)) \cup Eq("stpd", o.stpd2, EStpd2(n, o.s))
     \cup Eq("computePushForwardDerivative", o.pfd2, EPFD2(n, o.a))
FailsP4(o) == EqAll(o, EProducts(o.n, o.x, o.y)) \cup EqAll(o, EApplications(o.n, o.x, o.a, o.s))
              \cup EqAll(o, EChained(o.n, o.y, o.a, o.s))
FailsC4(o) == EqAll(o, EConversions(o.n, o.x))
FailsR4(o) ==
  LET n == o.n M == OfRowMajor(o.m) IN
     Eq("change_basis_st2tost2", o.cbss, ECBss(n, o.x, M)) \cup Eq("change_basis_t2tot2", o.cbtt, ECBtt(n, o.x, M))
     \cup Eq("change_basis_t2tost2", o.cbts, ECBts(n, o.x, M))
     \cup Eq("push_forward_st2tost2", o.pfss, EPFss(n, o.x, o.f))
     \cup (IF EDet(o.g) # 0 THEN Eq("pull_back_st2tost2", o.pbss, EPBss(n, o.x, o.g)) ELSE {})
FailsInv4(o) == IF IsInverseSS(o.n, o.xss, o.inv, o.k) THEN {} ELSE {"invert_st2tost2"}
Fails(o) == (CASE o.kind = "tu" -> FailsTu(o) [] o.kind = "tb" -> FailsTb(o) [] o.kind = "ts" -> FailsTs(o)
               [] o.kind = "trot" -> FailsTRot(o) [] o.kind = "polar" -> FailsPolar(o) [] o.kind = "special" -> FailsSpecial(o)
               [] o.kind = "d4" -> FailsD4(o) [] o.kind = "p4" -> FailsP4(o) [] o.kind = "c4" -> FailsC4(o) [] o.kind = "r4" -> FailsR4(o)
               [] o.kind = "inv4" -> FailsInv4(o) [] OTHER -> {"unknown_kind"})
            \cup {"inexact:" \o o.loose[i] : i \in 1..Len(o.loose)}
ASSUME JudgeAll(Fails)
=============================================================================

------------------------------ MODULE Interpolation ------------------------------
(* C11 - linear and natural cubic-spline interpolation of a table (xs strictly increasing integers,
   ys integers), in exact rational arithmetic (Rat.tla).  Queries are rationals.

   Linear: value on the segment containing the query; outside the table the end segment is prolonged
   (extrapolate) or the end value is kept (clamp, derivative 0).  A one-node table is constant.

   Natural cubic spline: the C2 piecewise cubic through the nodes with zero second derivative at both
   ends, defined here by its nodal first derivatives d (the classical tridiagonal system, solved by
   forward elimination / back substitution); outside the table it is prolonged linearly with the end
   slope (second derivative 0). *)
EXTENDS Rat, Integers, Sequences
N(xs) == Len(xs)
H(xs, i) == xs[i + 1] - xs[i]
Slope(xs, ys, i) == RNorm(ys[i + 1] - ys[i], H(xs, i))
\* index i of the segment [x_i, x_(i+1)] used for query q (q strictly inside: the first node >= q closes it)
Seg(xs, q) == CHOOSE i \in 1..(N(xs) - 1) : RLe(q, RI(xs[i + 1])) /\ (i = 1 \/ RLt(RI(xs[i]), q))
Below(xs, q) == RLe(q, RI(xs[1]))
Above(xs, q) == RLe(RI(xs[N(xs)]), q)
\* ---------------------------------- linear ----------------------------------
LinOn(xs, ys, i, q) == RAdd(RI(ys[i]), RMul(Slope(xs, ys, i), RSub(q, RI(xs[i]))))
Linear(xs, ys, q, extrapolate) ==
  IF N(xs) = 1 THEN RI(ys[1])
  ELSE IF Below(xs, q) THEN (IF extrapolate THEN LinOn(xs, ys, 1, q) ELSE RI(ys[1]))
  ELSE IF Above(xs, q) THEN (IF extrapolate THEN LinOn(xs, ys, N(xs) - 1, q) ELSE RI(ys[N(xs)]))
  ELSE LinOn(xs, ys, Seg(xs, q), q)
\* admissible derivatives (at a node both one-sided slopes are derivatives of the interpolant)
LinearDerivs(xs, ys, q, extrapolate) ==
  IF N(xs) = 1 THEN {RI(0)}
  ELSE IF RLt(q, RI(xs[1])) THEN {IF extrapolate THEN Slope(xs, ys, 1) ELSE RI(0)}
  ELSE IF RLt(RI(xs[N(xs)]), q) THEN {IF extrapolate THEN Slope(xs, ys, N(xs) - 1) ELSE RI(0)}
  ELSE {Slope(xs, ys, i) : i \in {j \in 1..(N(xs) - 1) : RLe(RI(xs[j]), q) /\ RLe(q, RI(xs[j + 1]))}}
       \cup (IF ~extrapolate /\ (q = RI(xs[1]) \/ q = RI(xs[N(xs)])) THEN {RI(0)} ELSE {})
\* ------------------------------ natural cubic spline ------------------------------
\* rows of the tridiagonal system  lo[i] d[i-1] + di[i] d[i] + up[i] d[i+1] = rhs[i]
Lo(xs, i) == IF i = 1 THEN RI(0) ELSE IF i = N(xs) THEN RI(1) ELSE RI(H(xs, i))
Di(xs, i) == IF i = 1 \/ i = N(xs) THEN RI(2) ELSE RI(2 * (H(xs, i - 1) + H(xs, i)))
Upp(xs, i) == IF i = 1 THEN RI(1) ELSE IF i = N(xs) THEN RI(0) ELSE RI(H(xs, i - 1))
Rhs(xs, ys, i) == IF i = 1 THEN RMul(RI(3), Slope(xs, ys, 1))
                  ELSE IF i = N(xs) THEN RMul(RI(3), Slope(xs, ys, N(xs) - 1))
                  ELSE RMul(RI(3), RAdd(RMul(RI(H(xs, i)), Slope(xs, ys, i - 1)), RMul(RI(H(xs, i - 1)), Slope(xs, ys, i))))
\* forward elimination: cp[i], dp[i] (Thomas algorithm)
RECURSIVE CP(_, _), DP(_, _, _), DD(_, _, _)
CP(xs, i) == IF i = 1 THEN RDiv(Upp(xs, 1), Di(xs, 1))
             ELSE RDiv(Upp(xs, i), RSub(Di(xs, i), RMul(Lo(xs, i), CP(xs, i - 1))))
DP(xs, ys, i) == IF i = 1 THEN RDiv(Rhs(xs, ys, 1), Di(xs, 1))
                 ELSE RDiv(RSub(Rhs(xs, ys, i), RMul(Lo(xs, i), DP(xs, ys, i - 1))),
                           RSub(Di(xs, i), RMul(Lo(xs, i), CP(xs, i - 1))))
\* nodal first derivatives
DD(xs, ys, i) == IF i = N(xs) THEN DP(xs, ys, i) ELSE RSub(DP(xs, ys, i), RMul(CP(xs, i), DD(xs, ys, i + 1)))
A2(xs, ys, i) == RDiv(RSub(RSub(RMul(RI(3), Slope(xs, ys, i)), RMul(RI(2), DD(xs, ys, i))), DD(xs, ys, i + 1)), RI(H(xs, i)))
A3(xs, ys, i) == RDiv(RSub(RAdd(DD(xs, ys, i), DD(xs, ys, i + 1)), RMul(RI(2), Slope(xs, ys, i))), RI(H(xs, i) * H(xs, i)))
\* value, first and second derivative of the spline (prolonged linearly outside)
SplineOn(xs, ys, i, t) == RAdd(RI(ys[i]), RMul(t, RAdd(DD(xs, ys, i), RMul(t, RAdd(A2(xs, ys, i), RMul(t, A3(xs, ys, i)))))))
Spline(xs, ys, q) ==
  IF N(xs) = 1 THEN RI(ys[1])
  ELSE IF Below(xs, q) THEN RAdd(RI(ys[1]), RMul(DD(xs, ys, 1), RSub(q, RI(xs[1]))))
  ELSE IF Above(xs, q) THEN RAdd(RI(ys[N(xs)]), RMul(DD(xs, ys, N(xs)), RSub(q, RI(xs[N(xs)]))))
  ELSE LET i == Seg(xs, q) IN SplineOn(xs, ys, i, RSub(q, RI(xs[i])))
SplineD1(xs, ys, q) ==
  IF N(xs) = 1 THEN RI(0)
  ELSE IF Below(xs, q) THEN DD(xs, ys, 1)
  ELSE IF Above(xs, q) THEN DD(xs, ys, N(xs))
  ELSE LET i == Seg(xs, q) t == RSub(q, RI(xs[i])) IN
       RAdd(DD(xs, ys, i), RMul(t, RAdd(RMul(RI(2), A2(xs, ys, i)), RMul(RMul(RI(3), t), A3(xs, ys, i)))))
SplineD2(xs, ys, q) ==
  IF N(xs) = 1 \/ Below(xs, q) \/ Above(xs, q) THEN RI(0)
  ELSE LET i == Seg(xs, q) t == RSub(q, RI(xs[i])) IN RAdd(RMul(RI(2), A2(xs, ys, i)), RMul(RMul(RI(6), t), A3(xs, ys, i)))
\* integral of the (prolonged) spline between two rationals a <= b, piece by piece
PieceInt(xs, ys, i, t0, t1) ==   \* integral of the i-th cubic in local coordinate from t0 to t1
  LET P(t) == RMul(t, RAdd(RI(ys[i]), RMul(t, RAdd(RDiv(DD(xs, ys, i), RI(2)),
                    RMul(t, RAdd(RDiv(A2(xs, ys, i), RI(3)), RMul(t, RDiv(A3(xs, ys, i), RI(4)))))))))
  IN RSub(P(t1), P(t0))
LinInt(y0, d, u0, u1) ==         \* integral of y0 + d u from u0 to u1
  RAdd(RMul(y0, RSub(u1, u0)), RMul(RDiv(d, RI(2)), RSub(RMul(u1, u1), RMul(u0, u0))))
RMin(a, b) == IF RLe(a, b) THEN a ELSE b
RMax(a, b) == IF RLe(a, b) THEN b ELSE a
RECURSIVE SumPieces(_, _, _, _, _)
SumPieces(xs, ys, a, b, i) ==
  IF i = N(xs) THEN RI(0)
  ELSE LET lo == RMax(a, RI(xs[i])) hi == RMin(b, RI(xs[i + 1]))
       IN RAdd(IF RLt(lo, hi) THEN PieceInt(xs, ys, i, RSub(lo, RI(xs[i])), RSub(hi, RI(xs[i]))) ELSE RI(0),
               SumPieces(xs, ys, a, b, i + 1))
SplineIntegral(xs, ys, a, b) ==      \* a <= b, N(xs) >= 2
  LET x1 == RI(xs[1]) xn == RI(xs[N(xs)])
      left == IF RLt(a, x1) THEN LinInt(RI(ys[1]), DD(xs, ys, 1), RSub(a, x1), RSub(RMin(b, x1), x1)) ELSE RI(0)
      right == IF RLt(xn, b) THEN LinInt(RI(ys[N(xs)]), DD(xs, ys, N(xs)), RSub(RMax(a, xn), xn), RSub(b, xn)) ELSE RI(0)
  IN RAdd(RAdd(left, right), SumPieces(xs, ys, a, b, 1))
\* integral between any two rationals (antisymmetric), one-node tables are constant
SignedIntegral(xs, ys, a, b) ==
  IF N(xs) = 1 THEN RMul(RI(ys[1]), RSub(b, a))
  ELSE IF RLe(a, b) THEN SplineIntegral(xs, ys, a, b) ELSE RNeg(SplineIntegral(xs, ys, b, a))
\* ---- the oracle checks itself: interpolation, C1/C2 continuity and natural ends on sample tables ----
TheoremsOn(xs, ys) ==
  /\ \A i \in 1..N(xs) : Spline(xs, ys, RI(xs[i])) = RI(ys[i]) /\ Linear(xs, ys, RI(xs[i]), TRUE) = RI(ys[i])
  /\ \A i \in 1..(N(xs) - 1) : LET h == RI(H(xs, i)) IN
        /\ SplineOn(xs, ys, i, h) = RI(ys[i + 1])                                                  \* C0
        /\ RAdd(DD(xs, ys, i), RMul(h, RAdd(RMul(RI(2), A2(xs, ys, i)), RMul(RMul(RI(3), h), A3(xs, ys, i))))) = DD(xs, ys, i + 1)  \* C1
        /\ (i + 1 < N(xs) => RAdd(RMul(RI(2), A2(xs, ys, i)), RMul(RMul(RI(6), h), A3(xs, ys, i))) = RMul(RI(2), A2(xs, ys, i + 1)))  \* C2
  /\ A2(xs, ys, 1) = RI(0)                                                                          \* natural left end
  /\ RAdd(RMul(RI(2), A2(xs, ys, N(xs) - 1)), RMul(RMul(RI(6), RI(H(xs, N(xs) - 1))), A3(xs, ys, N(xs) - 1))) = RI(0)   \* natural right end
Theorems == TheoremsOn(<<0, 1, 3>>, <<1, -1, 2>>) /\ TheoremsOn(<<0, 2, 3, 4>>, <<0, 1, 0, -2>>) /\ TheoremsOn(<<-1, 0, 1, 3, 4>>, <<2, 0, 1, 1, -1>>)
            /\ TheoremsOn(<<0, 1>>, <<1, 3>>)
=============================================================================

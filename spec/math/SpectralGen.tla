------------------------------ MODULE SpectralGen ------------------------------
(* GEN for C03: tensors constructed from known decompositions (Spectral.tla) x solver x ordering x dimension.
   TIER = "quick" | "thorough" (environment).  Case fields:
     n (dimension), solver, ord, b (refine flag), a (integer components 11 22 33 12 13 23), k (binary scale
     exponent: the tensor is 2^k a), ev (expected eigenvalues n^2 l, in construction order), nn and cols (known
     eigenvectors: columns of cols / nn), kind, scalefree (the accuracy obligations apply: always for |k| <= 100,
     at 2^+-300 only where the implementation normalises its input). *)
EXTENDS Spectral, TLC, Json, IOUtils, SequencesExt
Thorough == IOEnv.TIER = "thorough"
Orders == {"none", "asc", "desc"}
S4 == {-1, 0, 1, 2}
SmallQ == Cube(S4)
Small == IF Thorough THEN Cube(-2..3) ELSE SmallQ
\* (rotation, spectrum) pairs
Pairs(Rs, Ls) == {p \in Rs \X Ls : Fits(p[1], p[2])}
T3 == IF Thorough THEN Pairs(Rot3Quick, Small \cup Wide \cup Near) \cup Pairs(Rot3All, SmallQ \cup Wide \cup Near)
      ELSE Pairs(Rot3Quick, Small \cup Wide \cup Near)
T3VeryNear == Pairs({r \in (IF Thorough THEN Rot3All ELSE Rot3Quick) : r.n <= 3}, VeryNear)
T2 == Pairs(IF Thorough THEN RotZAll ELSE RotZQuick, Small \cup Wide \cup Near) \cup Pairs({R(1, Id3), R(1, Cz)}, VeryNear)
T1 == Pairs({R(1, Id3)}, Small \cup Wide \cup Near \cup VeryNear)
\* scaled replays: moderate scales everywhere they are exact, extreme scales as a separate kind
ScaledRot3 == {R(7, Q7), R(25, Mul(Px, Pz))} \cup (IF Thorough THEN {R(1, Id3), R(3, Q3), R(5, Py)} ELSE {})
ExtremeRot3 == {R(1, Id3), R(3, Q3)} \cup (IF Thorough THEN {R(5, Pz), R(7, Q7)} ELSE {})
ScaledL == SmallQ \cup Wide \cup Near
ExtremeL == Cube({0, 1, 2}) \cup Wide \cup Near \cup {<<-1, 0, 1>>, <<-2, -1, 1>>}
\* solvers whose 3D algorithm normalises the tensor (Cardano after division by the largest component: release
\* notes 2.0.5 / 3.0.1, ticket 38; Jacobi rotations and Gte's QR are homogeneous of degree one): the accuracy and
\* finiteness obligations hold at every representable scale.  The other 3D algorithms form squares, cubes or sixth
\* powers of the components: they are judged up to 2^+-100 and only observed at 2^+-300.
ScaleFree3 == {"TFELEIGENSOLVER", "FSESJACOBIEIGENSOLVER", "GTESYMMETRICQREIGENSOLVER"}
ScaleFree(n, s, k) == k \in {0, 100, -100} \/ n < 3 \/ s \in ScaleFree3
\* the tensor of a pair (computed once per pair), then crossed with solver, ordering, flag and scale
Tens(n, p) == LET r == p[1] l == p[2] IN
  [n |-> n, a |-> CompOf(TensorOf(r.M, l)), ev |-> EigenOf(r.n, l), nn |-> r.n, cols |-> RowMajor(r.M), l |-> l, lk |-> Kind(l)]
Tens3 == {Tens(3, p) : p \in T3 \cup T3VeryNear}
Tens3Scaled == {Tens(3, p) : p \in Pairs(ScaledRot3, ScaledL)}
Tens3Extreme == {Tens(3, p) : p \in Pairs(ExtremeRot3, ExtremeL)}
Tens2 == {Tens(2, p) : p \in T2}
Tens2Scaled == {Tens(2, p) : p \in Pairs({R(5, Pz), R(1, Id3)}, ScaledL)}
Tens1 == {Tens(1, p) : p \in T1}
Tens1Scaled == {Tens(1, p) : p \in Pairs({R(1, Id3)}, SmallQ)}
Case(t, s, o, b, k) ==
  [n |-> t.n, lk |-> t.lk, solver |-> s, ord |-> o, b |-> b, k |-> k, a |-> t.a, ev |-> t.ev, nn |-> t.nn, cols |-> t.cols, l |-> t.l,
   kind |-> IF k \in {300, -300} THEN "extreme" ELSE t.lk, scalefree |-> ScaleFree(t.n, s, k)]
Refinable == {"TFELEIGENSOLVER", "GTESYMMETRICQREIGENSOLVER"}
\* every ordering on the small spectra; the wide / near ones (all distinct patterns are already in the small ones) skip "asc" in the quick tier
OrdersOf(t) == IF Thorough \/ t.lk = "small" THEN Orders ELSE {"none", "desc"}
Cases3 == {c \in {Case(t, s, o, 0, 0) : t \in Tens3, s \in Solvers, o \in Orders} : c.ord \in OrdersOf(c)}
          \cup {Case(t, s, "none", 1, 0) : t \in Tens3, s \in Refinable}
          \cup {Case(t, s, "none", 0, k) : t \in Tens3Scaled, s \in Solvers, k \in {100, -100}}
          \cup {Case(t, s, "asc", b, k) : t \in Tens3Extreme, s \in Solvers, b \in 0..1, k \in {300, -300}}
\* 2D and 1D: only two code paths exist behind the 8 names (TFEL's and FSES's 2D formulas; copies in 1D): every
\* solver sees every ordering on the small spectra, the full set of spectra goes through one solver of each path
Paths2 == {"TFELEIGENSOLVER", "FSESJACOBIEIGENSOLVER"}
IsSmall(t) == t.lk = "small" /\ t.l \in SmallQ
Cases2 == {Case(t, s, o, 0, 0) : t \in {x \in Tens2 : IsSmall(x) /\ (Thorough \/ x.nn \in {1, 5})}, s \in Solvers, o \in Orders}
          \cup {Case(t, s, o, 0, 0) : t \in Tens2, s \in (IF Thorough THEN Paths2 \cup {"HARARIEIGENSOLVER", "FSESQLEIGENSOLVER"} ELSE Paths2), o \in Orders}
          \cup {Case(t, s, "desc", 1, k) : t \in Tens2Scaled, s \in Paths2 \cup {"HARARIEIGENSOLVER", "FSESANALYTICALEIGENSOLVER"}, k \in (IF Thorough THEN {100, -100, 300, -300} ELSE {100, -300})}
Cases1 == {Case(t, s, o, 0, 0) : t \in {x \in Tens1 : IsSmall(x)}, s \in Solvers, o \in Orders}
          \cup {Case(t, s, o, 0, 0) : t \in Tens1, s \in Paths2, o \in Orders}
          \cup {Case(t, s, "asc", 1, k) : t \in Tens1Scaled, s \in Paths2, k \in {300, -300}}
Cases == Cases3 \cup Cases2 \cup Cases1
Number(S) == LET s == SetToSeq(S) IN [i \in 1..Len(s) |-> [id |-> i] @@ s[i]]
ASSUME SpecTheorems(TRUE)
\* the lattice contains what the property insists on: diagonal, repeated, nearly repeated, badly scaled, zero, negative
ASSUME /\ \E c \in Cases3 : c.a[4] = 0 /\ c.a[5] = 0 /\ c.a[6] = 0 /\ c.l[1] # c.l[2]
       /\ \E c \in Cases3 : c.l[1] = c.l[2] /\ c.l[2] # c.l[3] /\ c.a[4] # 0
       /\ \E c \in Cases3 : c.l = <<1, 0, 0>> /\ c.a[4] = 0
       /\ \E c \in Cases3 : c.l = <<0, 0, 0>>
       /\ \E c \in Cases3 : c.kind = "near" /\ c.a[5] # 0
       /\ \E c \in Cases3 : c.kind = "wide" /\ \E c2 \in Cases3 : c2.kind = "extreme"
       /\ \A s \in Solvers : \A o \in Orders : \A n \in 1..3 : \E c \in Cases : c.solver = s /\ c.ord = o /\ c.n = n
ASSUME ndJsonSerialize(IOEnv.OUT, Number(Cases))
ASSUME PrintT(<<"GEN", Cardinality(Cases3), Cardinality(Cases2), Cardinality(Cases1)>>)
=============================================================================

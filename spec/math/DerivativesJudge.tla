-------------------------- MODULE DerivativesJudge --------------------------
(* JUDGE for C06: every observation of harness/derivatives.cxx against the exact derivative computed from the
   meaning of the function (Derivatives.tla).  An observation echoes the case and carries val (image of every
   elementary direction), hess for the scalar functions, lam / ten for the eigen helpers; `loose` lists the
   results that were not within tolerance of an integer. *)
EXTENDS Derivatives, Judge
Eq(name, got, want) == IF got = want THEN {} ELSE {name}
Pad(s, n) == [i \in 1..n |-> IF i <= Len(s) THEN s[i] ELSE 0]
FailsEig(o) ==
  LET M == OfRowMajor(o.x)
      B == OfRowMajor(o.b)
      vp == <<B[1][1], B[2][2], B[3][3]>>
      D == Dirs(TRUE, o.n)
  IN  IF Len(o.lam) # 3 \/ Len(o.ten) # 3 \/ \E i \in 1..3 : Len(o.lam[i]) # Len(D) \/ Len(o.ten[i]) # Len(D)
      THEN {"eig:shape"}
      ELSE LET S == EigS(vp, M) kk == KE(vp, o.m) IN
           UNION {LET NN == EigNN(M, i) IN
                  IF \A d \in 1..Len(D) : EigLinearised(S, NN, kk, o.m, vp[i], D[d], o.lam[i][d], SymOf(o.ten[i][d]))
                  THEN {} ELSE {"eig:linearised-system"} : i \in 1..3}
FailsPoly(o) ==
     Eq(o.kind, o.val, ExpectedVal(o))
     \cup (IF o.kind \in ScalarSym \cup ScalarFull /\ o.m = 1 THEN (IF IsSymSeq(o.hess) THEN Eq(o.kind \o ":second", UpperOf(o.hess), ExpectedHessUpper(o)) ELSE {o.kind \o ":second"}) ELSE {})
Fails(o) == (IF o.kind = "eig" THEN FailsEig(o) ELSE FailsPoly(o))
            \cup Eq("scale", o.k, K(o.kind, OfRowMajor(o.x), OfRowMajor(o.b), o.m))
            \cup {"inexact:" \o o.kind \o ":" \o o.loose[i] : i \in 1..Len(o.loose)}
ASSUME JudgeAll(Fails)
=============================================================================

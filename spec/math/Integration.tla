------------------------------- MODULE Integration -------------------------------
(* C12 - quadrature and Runge-Kutta schemes.
   (a) exactness: the integral of t^k over [a, b] is (b^(k+1) - a^(k+1))/(k+1), exact rationals;
       Gauss-Kronrod (15 points) must reproduce it for k <= 22 with a vanishing error estimate for k <= 13;
       a Runge-Kutta scheme of order p must reproduce y(tf) = y0 + integral of t^k for k < p.
   (b) step control of the adaptive schemes RungeKutta42 / RungeKutta54 as a transition system on an integer
       time grid (unit = (tf - ti)/D): the error test accepts or rejects a step, the step is then rescaled by
       any factor and clipped to the remaining time.
       Guard = "half" : loop guard  t < tf - dt/2  (the tree as pinned)
       Guard = "end"  : loop guard  t < tf         (repaired loop)            *)
EXTENDS IntegrationExact, TLC
\* ---- (b) step control ----
CONSTANTS D, Guard
VARIABLES t, dt, pc
vars == <<t, dt, pc>>
tf == D
G(tt, d) == IF Guard = "half" THEN 2 * tt < 2 * tf - d ELSE tt < tf
Init == t = 0 /\ dt \in 1..(2 * D) /\ pc = "start"
\* dt = min(dt, tf - ti) before the loop
Start == pc = "start" /\ dt' = (IF dt < tf THEN dt ELSE tf) /\ pc' = "loop" /\ t' = t
\* one pass of the loop body
Pass == /\ pc = "loop" /\ G(t, dt)
        /\ \E accept \in BOOLEAN : \E nd \in 1..(2 * D) :
             LET t1 == IF accept THEN t + dt ELSE t IN
             /\ t' = t1
             /\ IF G(t1, dt) THEN dt' = (IF nd > tf - t1 THEN tf - t1 ELSE nd) ELSE dt' = dt
        /\ pc' = "loop"
Exit == pc = "loop" /\ ~G(t, dt) /\ pc' = "done" /\ UNCHANGED <<t, dt>>
Done == pc = "done" /\ UNCHANGED vars
Next == Start \/ Pass \/ Exit \/ Done
Spec == Init /\ [][Next]_vars
NoOvershoot == t <= tf
StopsAtFinalTime == pc = "done" => t = tf
=============================================================================

----------------------------- MODULE LinearSolveGen -----------------------------
EXTENDS LinearSolve, TLC, Json, IOUtils, SequencesExt
Thorough == IOEnv.TIER = "thorough"
Case(n, A, singular, fam) == [n |-> n, a |-> A, x0 |-> X0(n), b |-> MulVec(n, A, X0(n)), singular |-> singular, family |-> fam]
All(n, S) == [1..n -> [1..n -> S]]
Small == {Case(1, A, IF Det1(A) = 0 THEN 1 ELSE 0, "lattice") : A \in All(1, -2..2)}
         \cup {Case(2, A, IF Det2(A) = 0 THEN 1 ELSE 0, "lattice") : A \in All(2, -2..2)}
         \cup {Case(3, A, IF Det3(A) = 0 THEN 1 ELSE 0, "lattice") :
                 A \in {B \in All(3, -1..1) : Thorough \/ (B[1][1] + 2 * B[2][2] + B[3][3] + B[1][2] + B[3][1]) % 3 = 0}}
Sizes == 4..12
Vs == 0..(IF Thorough THEN 5 ELSE 2)
Big == UNION {{Case(n, PLU(n, v), 0, "plu"),
               Case(n, ZeroRow(n, PLU(n, v), (v % n) + 1), 1, "zero-row"),
               Case(n, ZeroCol(n, PLU(n, v), ((v + 1) % n) + 1), 1, "zero-column"),
               Case(n, DupRow(n, PLU(n, v), n, 1), 1, "duplicated-row"),
               Case(n, DblRow(n, PLU(n, v), 2, n), 1, "doubled-row")} : n \in Sizes, v \in Vs}
Number(S) == LET s == SetToSeq(S) IN [i \in 1..Len(s) |-> [id |-> i] @@ s[i]]
ASSUME Theorems
ASSUME ndJsonSerialize(IOEnv.OUT, Number(Small \cup Big))
ASSUME PrintT(<<"GEN", Cardinality(Small), Cardinality(Big)>>)
=============================================================================

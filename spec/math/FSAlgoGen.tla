------------------------------- MODULE FSAlgoGen -------------------------------
EXTENDS FSAlgo, TLC, Json, IOUtils, SequencesExt, FiniteSets
Thorough == IOEnv.TIER = "thorough"
MaxExh == IF Thorough THEN 8 ELSE 7
Seqs(n) == [1..n -> 0..2]
Variant(s, v) == IF v = 0 \/ Len(s) = 0 THEN s
                 ELSE IF v = 1 THEN [s EXCEPT ![Len(s)] = (@ + 1) % 3] ELSE [s EXCEPT ![1] = (@ + 2) % 3]
Exh == UNION {{[n |-> n, s |-> s, t |-> Variant(s, v)] : s \in Seqs(n), v \in 0..2} : n \in 0..MaxExh}
Pseudo(n, v) == [i \in 1..n |-> (i * i * 7 + n * 13 + v * 31 + ((i * v) % 5)) % 10]
Big == {[n |-> n, s |-> Pseudo(n, v), t |-> Pseudo(n, v + w)] : n \in (MaxExh + 1)..64, v \in 1..2, w \in 0..1}
Number(S) == LET s == SetToSeq(S) IN [i \in 1..Len(s) |-> [id |-> i] @@ s[i]]
ASSUME ndJsonSerialize(IOEnv.OUT, Number(Exh \cup Big))
ASSUME PrintT(<<"GEN", Cardinality(Exh), Cardinality(Big)>>)
=============================================================================

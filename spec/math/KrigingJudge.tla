----------------------------- MODULE KrigingJudge -----------------------------
(* JUDGE for C19.  Observation of harness/kriging.cxx: the case, plus one record per entry point
     kind "krig": tpl (Kriging<N>), wrap (Kriging1D/2D/3D, no nugget available: only when the nugget is null), kf (KrigedFunction<N>)
     kind "fact": tpl (FactorizedKriging<1, 1>), wrap (FactorizedKriging1D1D)
   with   out      "ok" | "throw"
          miss     number of training points whose value is not returned within 1e-9 x scale
          errexp   decimal exponent of the largest error at a training point relative to scale (-20 when null)
          ressum   the residuals at the training points add up to zero within 1e-9 x scale x number of points
          probes   [q, tight]: EXACT abstraction of twice the value at each probe
   and    wagree   wrapper = template built on the coordinates normalised by (x - lo) / span, at training points and probes
          kfsame   KrigedFunction returns bitwise the values of the template. *)
EXTENDS Kriging, Judge
Check(name, b) == IF b THEN {} ELSE {name}
Reproduces(r) == r.miss = 0 /\ r.errexp <= -9
ExactAffine(o, r, c) == \A i \in 1..Len(o.probes) : r.probes[i].tight /\ r.probes[i].q = AffineTwice(o.c0, c, o.probes[i])
NoNugget(o) == o.nug[1] = 0
FailsKrig(o) ==
  LET cls == Class(o.pts)
      Api(name, r, refuses) ==
        Check(name \o ":builds-on-regular-set", (cls = "regular" /\ ~refuses) => r.out = "ok")
        \cup Check(name \o ":insufficient-data-reported", (cls = "insufficient" \/ refuses) => r.out = "throw")
        \cup Check(name \o ":reproduces-training-data-or-throws", (r.out = "ok" /\ NoNugget(o)) => Reproduces(r))
        \cup Check(name \o ":affine-data-exact-everywhere", (r.out = "ok" /\ cls = "regular" /\ o.fam = "affine") => (Reproduces(r) /\ ExactAffine(o, r, o.c)))
        \cup Check(name \o ":nugget-residuals-sum-to-zero", (r.out = "ok" /\ cls = "regular") => r.ressum)
        \cup Check(name \o ":nugget-taken-into-account", (r.out = "ok" /\ cls = "regular" /\ ~NoNugget(o) /\ o.fam # "affine" /\ ~AffineData(o.pts, o.vals)) => r.miss > 0)
  IN Check("case-integrity", cls = o.cls /\ o.vals = Values(o.fam, o.c0, o.c, o.pts) /\ o.lo = Lo(o.pts) /\ o.span = Span(o.pts) /\ o.scale = MaxAbs(o.vals))
     \cup Api("template", o.tpl, FALSE) \cup Api("kriged-function", o.kf, FALSE)
     \cup (IF NoNugget(o) THEN Api("wrapper", o.wrap, WrapperRefuses(o.pts)) ELSE {})
     \cup Check("wrapper-is-template-on-normalised-coordinates", (NoNugget(o) /\ cls = "regular") => o.wagree)
     \* the std::vector and tfel::math::vector constructors of a wrapper build the same interpolant (bitwise)
     \cup Check("wrapper-constructor-overloads-differ", (NoNugget(o) /\ "woverloads" \in DOMAIN o) => o.woverloads)
     \cup Check("kriged-function-is-template", (o.tpl.out = "ok") => (o.kf.out = "ok" /\ o.kfsame))
FailsFact(o) ==
  LET n == Len(o.pts)
      Api(name, r, nb, c) ==
        Check(name \o ":builds-on-product-grid", (o.cls = "product" /\ n > nb) => r.out = "ok")
        \cup Check(name \o ":insufficient-data-reported", n <= nb => r.out = "throw")
        \cup Check(name \o ":reproduces-training-data-or-throws", r.out = "ok" => Reproduces(r))
        \cup Check(name \o ":drift-span-exact-everywhere", (r.out = "ok" /\ o.cls = "product" /\ o.fam = "affine" /\ c = o.c) => ExactAffine(o, r, c))
  IN Check("case-integrity", o.vals = Values(o.fam, o.c0, o.c, o.pts) /\ o.lo = Lo(o.pts) /\ o.span = Span(o.pts))
     \cup Api("factorized-template", o.tpl, 2, o.c)                       \* drifts 1, x1, x2
     \cup Api("factorized-wrapper", o.wrap, 1, <<0, o.c[2]>>)             \* drifts 1, x2: exact only when the data does not depend on x1
     \cup Check("factorized-wrapper-refuses-null-span", WrapperRefuses(o.pts) => o.wrap.out = "throw")
     \cup Check("factorized-wrapper-is-template-on-normalised-coordinates", o.wrap.out = "ok" => o.wagree)
Fails(o) == IF o.kind = "krig" THEN FailsKrig(o) ELSE FailsFact(o)
ASSUME JudgeAll(Fails)
=============================================================================

------------------------------ MODULE KrigingGen ------------------------------
(* GEN for C19: training sets on small integer grids.
   1D: every subset of 0..5 (0..7 in thorough; decreasing insertion order too for 3..6 points of 0..5), 1 and 2 points (insufficient),
       sets with a repeated point, 40 equidistant points;
   2D: every 4-subset of the 3 x 3 grid and the 5-subsets through two opposite corners (all subsets of 4..9 points in thorough;
       collinear ones are "flat"), 2 and 3 points (insufficient), oblique collinear points, a repeated point, full 3x3 ... 6x6 grids (anisotropic steps);
   3D: every 5..8-subset of the unit cube, 2 and 4 points (insufficient), coplanar sets (axis-parallel and oblique),
       a repeated point, the 3x3x3 grid;
   translated sets (lowest coordinates not null) in every dimension;
   values: three affine functions, a quadratic one, a unit pulse on the first point; nugget 0 and 1/4;
   probes: half-integer points inside and outside the hull.
   Factorized kriging (1D x 1D): product grids and scattered sets, affine / x2-only / quadratic values. *)
EXTENDS Kriging, TLC, Json, IOUtils, SequencesExt
Thorough == IOEnv.TIER = "thorough"
SubsetsOfSize(S, lo, hi) == {T \in SUBSET S : Cardinality(T) >= lo /\ Cardinality(T) <= hi}
\* a set of integer tuples as a sequence in TLC's normalised (lexicographic) order
Sorted(S) == SetToSortSeq(S, LAMBDA a, b : \E k \in 1..Len(a) : a[k] < b[k] /\ \A l \in 1..(k - 1) : a[l] = b[l])
Rev(s) == [i \in 1..Len(s) |-> s[Len(s) + 1 - i]]
Grid2(nx, ny, sx, sy) == {<<sx * i, sy * j>> : i \in 0..(nx - 1), j \in 0..(ny - 1)}
Grid3(n) == {<<i, j, k>> : i \in 0..(n - 1), j \in 0..(n - 1), k \in 0..(n - 1)}
\* translated sets: the lowest coordinate is not null (the normalisation offsets of the wrappers matter)
Shift(pts, t) == [i \in 1..Len(pts) |-> [k \in 1..Len(t) |-> pts[i][k] + t[k]]]
Sets1 == {Sorted({<<x>> : x \in T}) : T \in SubsetsOfSize(0..(IF Thorough THEN 7 ELSE 5), 1, 8)}
         \cup {Rev(Sorted({<<x>> : x \in T})) : T \in SubsetsOfSize(0..5, 3, 6)}
         \cup {<<<<0>>, <<1>>, <<1>>, <<2>>>>, <<<<3>>, <<0>>, <<2>>, <<5>>, <<3>>>>, [i \in 1..40 |-> <<i - 1>>], [i \in 1..12 |-> <<3 * i>>],
               Shift(<<<<0>>, <<1>>, <<3>>, <<4>>>>, <<-2>>), Shift(<<<<5>>, <<0>>, <<2>>>>, <<7>>)}
Sets2 == {Sorted(T) : T \in SubsetsOfSize(Grid2(3, 3, 1, 1), 4, IF Thorough THEN 9 ELSE 4)}
         \cup (IF Thorough THEN {} ELSE {Sorted(T) : T \in {U \in SubsetsOfSize(Grid2(3, 3, 1, 1), 5, 5) : <<0, 0>> \in U /\ <<2, 2>> \in U}})
         \cup {[i \in 1..5 |-> <<i - 1, 2 * i - 1>>], <<<<0, 0>>, <<1, 0>>, <<0, 1>>, <<1, 0>>, <<2, 2>>>>, <<<<0, 0>>, <<1, 0>>, <<0, 1>>>>, <<<<2, 1>>, <<0, 0>>>>,
               Shift(Sorted(Grid2(3, 3, 1, 2)), <<2, -3>>), Shift(<<<<0, 0>>, <<2, 1>>, <<1, 2>>, <<2, 2>>, <<0, 1>>>>, <<-1, 5>>),
               Sorted(Grid2(3, 3, 1, 1)), Rev(Sorted(Grid2(4, 4, 1, 3))), Sorted(Grid2(5, 5, 2, 1)), Sorted(Grid2(6, 6, 1, 3)), Sorted(Grid2(4, 10, 1, 1))}
Sets3 == {Sorted(T) : T \in SubsetsOfSize(Grid3(2), 5, 8)}
         \cup {Sorted({<<i, j, 1>> : i \in 0..2, j \in 0..2}), Sorted({<<i, j, i + 2 * j>> : i \in 0..2, j \in 0..2}),
               <<<<0, 0, 0>>, <<1, 0, 0>>, <<0, 1, 0>>, <<0, 0, 1>>, <<1, 0, 0>>, <<1, 1, 1>>>>, Sorted(Grid3(3)), Rev(Sorted(Grid3(3))),
               <<<<0, 0, 0>>, <<1, 0, 0>>, <<0, 1, 0>>, <<0, 0, 1>>>>, <<<<1, 1, 1>>, <<0, 0, 0>>>>,
               Shift(Sorted(Grid3(2)), <<1, -2, 3>>), Shift(<<<<0, 0, 0>>, <<2, 0, 1>>, <<0, 1, 0>>, <<1, 1, 2>>, <<0, 2, 1>>, <<2, 2, 2>>>>, <<-3, 2, 1>>)}
Coefs(n) == IF n = 1 THEN {<<-3, <<2>>>>, <<1, <<-1>>>>, <<5, <<0>>>>}
            ELSE IF n = 2 THEN {<<-3, <<2, 1>>>>, <<1, <<-1, 3>>>>, <<2, <<0, -2>>>>}
            ELSE {<<-3, <<2, 1, -1>>>>, <<1, <<-1, 3, 2>>>>, <<0, <<0, 0, 4>>>>}
Probes(n) == IF n = 1 THEN <<<<<<1, 2>>>>, <<<<-1, 2>>>>, <<<<5, 2>>>>, <<<<13, 2>>>>>>
             ELSE IF n = 2 THEN <<<<<<1, 2>>, <<1, 2>>>>, <<<<-1, 2>>, <<3, 2>>>>, <<<<5, 2>>, <<1, 2>>>>, <<<<3, 2>>, <<7, 2>>>>>>
             ELSE <<<<<<1, 2>>, <<1, 2>>, <<1, 2>>>>, <<<<-1, 2>>, <<3, 2>>, <<1, 2>>>>, <<<<3, 2>>, <<1, 2>>, <<5, 2>>>>>>
Nuggets == {<<0, 1>>, <<1, 4>>}
KCase(pts, fam, cf, nug) == LET vals == Values(fam, cf[1], cf[2], pts) IN
  [kind |-> "krig", dim |-> Dim(pts), pts |-> pts, fam |-> fam, c0 |-> cf[1], c |-> cf[2], vals |-> vals, nug |-> nug,
   probes |-> Probes(Dim(pts)), cls |-> Class(pts), scale |-> MaxAbs(vals), lo |-> Lo(pts), span |-> Span(pts)]
Fams(n) == {<<"affine", cf>> : cf \in Coefs(n)} \cup {<<"quad", <<0, [k \in 1..n |-> 0]>>>>, <<"pulse", <<0, [k \in 1..n |-> 0]>>>>}
SetsOfDim(n) == IF n = 1 THEN Sets1 ELSE IF n = 2 THEN Sets2 ELSE Sets3
KCasesOk == UNION {{KCase(pts, fc[1], fc[2], nug) : pts \in SetsOfDim(n), fc \in Fams(n), nug \in Nuggets} : n \in 1..3}
\* ---- factorized kriging: points <<x1, x2>> ----
Axes == {<<0, 1, 2>>, <<0, 1, 3>>, <<0, 2, 3, 5>>, <<0, 1>>}
Product(a, b) == Sorted({<<a[i], b[j]>> : i \in 1..Len(a), j \in 1..Len(b)})
FSets == {Product(a, b) : a \in Axes, b \in Axes}
         \cup {<<<<0, 0>>, <<1, 2>>, <<2, 1>>, <<3, 3>>, <<0, 2>>, <<2, 4>>>>, <<<<0, 0>>, <<1, 1>>, <<2, 2>>, <<3, 3>>, <<4, 5>>>>,
               <<<<0, 0>>, <<1, 2>>>>, <<<<0, 0>>, <<1, 2>>, <<2, 1>>, <<1, 2>>, <<3, 0>>>>}
FCoefs == {<<-3, <<2, 1>>>>, <<1, <<0, 3>>>>, <<2, <<0, -2>>>>, <<4, <<-1, 0>>>>}
IsProduct(pts) == LET X == Coord(pts, 1) Y == Coord(pts, 2) IN
  ~HasDuplicate(pts) /\ {pts[i] : i \in Idx(pts)} = X \X Y /\ Cardinality(X) >= 2 /\ Cardinality(Y) >= 2
FCase(pts, fam, cf) == LET vals == Values(fam, cf[1], cf[2], pts) IN
  [kind |-> "fact", dim |-> 2, pts |-> pts, fam |-> fam, c0 |-> cf[1], c |-> cf[2], vals |-> vals, nug |-> <<0, 1>>,
   probes |-> Probes(2), cls |-> IF Len(pts) <= 2 THEN "insufficient" ELSE IF HasDuplicate(pts) THEN "duplicate" ELSE IF IsProduct(pts) THEN "product" ELSE "scattered",
   scale |-> MaxAbs(vals), lo |-> Lo(pts), span |-> Span(pts)]
FCases == {FCase(pts, "affine", cf) : pts \in FSets, cf \in FCoefs} \cup {FCase(pts, f, <<0, <<0, 0>>>>) : pts \in FSets, f \in {"quad", "pulse"}}
Number(S) == LET s == SetToSeq(S) IN [i \in 1..Len(s) |-> [id |-> i] @@ s[i]]
ASSUME Theorems
ASSUME ndJsonSerialize(IOEnv.OUT, Number(KCasesOk \cup FCases))
ASSUME PrintT(<<"GEN", Cardinality(Sets1), Cardinality(Sets2), Cardinality(Sets3), Cardinality(KCasesOk), Cardinality(FCases)>>)
=============================================================================

--------------------------------- MODULE FSAlgo ---------------------------------
(* C18 - the tfel::fsalgo fixed-size algorithms equal their std:: counterparts on the first N elements.
   The std:: meaning on sequences (ISO C++ [alg.*], [numeric.ops]):
     accumulate / inner_product are LEFT folds: acc = op(acc, x) in order of increasing index;
     min_element / max_element return the FIRST smallest / FIRST largest element;
     for_each / generate visit positions in increasing order. *)
EXTENDS Integers, Sequences
RECURSIVE FoldL(_, _, _)
FoldL(op(_, _), acc, s) == IF s = <<>> THEN acc ELSE FoldL(op, op(acc, Head(s)), Tail(s))
ModM == 1000003
MixOp(acc, x) == ((3 * acc) + x) % ModM          \* a non-commutative, non-associative operation: pins the fold order
Plus(a, b) == a + b
PairMap(s, t, f(_, _)) == [i \in 1..Len(s) |-> f(s[i], t[i])]
EAccumulate(s, init) == FoldL(Plus, init, s)
EAccumulateOp(s, init) == FoldL(MixOp, init, s)
EInner(s, t, init) == FoldL(Plus, init, PairMap(s, t, LAMBDA a, b : a * b))
EInnerOp(s, t, init) == FoldL(MixOp, init, PairMap(s, t, LAMBDA a, b : a - b))
ETransform1(s) == [i \in 1..Len(s) |-> 2 * s[i] + 1]
ETransform2(s, t) == PairMap(s, t, LAMBDA a, b : a - 2 * b)
EEqual(s, t) == s = t
EEqualPred(s, t) == \A i \in 1..Len(s) : s[i] % 2 = t[i] % 2
EIota(n, v) == [i \in 1..n |-> v + i - 1]
EFill(n, v) == [i \in 1..n |-> v]
\* first index of a smallest / largest element (n >= 1)
EMinIdx(s) == CHOOSE i \in 1..Len(s) : (\A j \in 1..Len(s) : s[i] <= s[j]) /\ (\A j \in 1..(i - 1) : s[j] > s[i])
EMaxIdx(s) == CHOOSE i \in 1..Len(s) : (\A j \in 1..Len(s) : s[i] >= s[j]) /\ (\A j \in 1..(i - 1) : s[j] < s[i])
=============================================================================

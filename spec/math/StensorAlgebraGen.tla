-------------------------- MODULE StensorAlgebraGen --------------------------
(* GEN for C01: the complete lattices of cases, written as ndjson for the harness.
   TIER = "quick" | "thorough" (environment). *)
EXTENDS StensorAlgebra, TLC, Json, IOUtils, SequencesExt
Thorough == IOEnv.TIER = "thorough"
R2 == -2..2
R1 == -1..1
Sym(n, S) == IF n = 1 THEN {<<a, b, c, 0, 0, 0>> : a \in S, b \in S, c \in S}
             ELSE IF n = 2 THEN {<<a, b, c, d, 0, 0>> : a \in S, b \in S, c \in S, d \in S}
             ELSE {<<a, b, c, d, e, f>> : a \in S, b \in S, c \in S, d \in S, e \in S, f \in S}
\* k = binary scale exponent of the replay (the harness multiplies by 2^k and rescales results exactly):
\* every case at k = 0, the -1..1 sub-lattice also at 2^40, 2^-40, 2^300, 2^-300
Unary == UNION {{[kind |-> "unary", n |-> n, a |-> c, k |-> 0] : c \in Sym(n, R2)} : n \in 1..3}
         \cup UNION {{[kind |-> "unary", n |-> n, a |-> c, k |-> k] : c \in Sym(n, R1), k \in {40, -40, 300, -300}} : n \in 1..3}
\* binary operations are bilinear: the second operand ranges over the elementary tensors (a basis, complete
\* by linearity) plus one generic tensor; the first over all of -1..1. Thorough: the full square for n = 3.
Elem(n) == {c \in Sym(n, 0..1) : c[1] + c[2] + c[3] + c[4] + c[5] + c[6] = 1}
Generic(n) == IF n = 1 THEN <<1, 0, -1, 0, 0, 0>> ELSE IF n = 2 THEN <<1, 0, -1, 1, 0, 0>> ELSE <<1, 0, -1, 1, -1, 1>>
Probe(n) == IF Thorough /\ n = 3 THEN Sym(3, R1) ELSE Elem(n) \cup {Generic(n)}
Binary == UNION {{[kind |-> "binary", n |-> n, a |-> a, b |-> b] : a \in Sym(n, R1), b \in Probe(n)} : n \in 1..3}
\* rotations: the 24 rotations of the cube and the rational rotations of integer quaternions in -2..2
Quats == {q \in {<<w, x, y, z>> : w \in R2, x \in R2, y \in R2, z \in R2} : QuatNorm(q) # 0}
QuatsZ == {q \in Quats : q[2] = 0 /\ q[3] = 0}                    \* rotations about e3 (valid in 2D)
RotTensors(n) == IF n = 2 THEN {<<1, 2, 3, 4, 0, 0>>, <<-2, 1, 0, 1, 0, 0>>, <<0, 0, 1, -3, 0, 0>>}
                 ELSE {<<1, 2, 3, 4, 5, 6>>, <<-2, 1, 0, 1, -1, 3>>, <<0, 0, 0, 1, 0, 0>>, <<1, 1, 1, 0, 0, 0>>, <<2, -1, -1, 0, 0, 5>>}
Rot == UNION {{[kind |-> "rot", n |-> n, a |-> c, m |-> RowMajor(QuatMat(q)), d |-> QuatNorm(q)] :
                 c \in RotTensors(n), q \in (IF n = 2 THEN QuatsZ ELSE Quats)} : n \in 2..3}
       \cup {[kind |-> "rot", n |-> 3, a |-> c, m |-> RowMajor(M), d |-> 1] : c \in RotTensors(3), M \in CubeRotations}
Number(S) == LET s == SetToSeq(S) IN [i \in 1..Len(s) |-> [id |-> i] @@ s[i]]
ASSUME OracleTheorems
ASSUME ndJsonSerialize(IOEnv.OUT, Number(Unary \cup Binary \cup Rot))
ASSUME PrintT(<<"GEN", Cardinality(Unary), Cardinality(Binary), Cardinality(Rot)>>)
=============================================================================

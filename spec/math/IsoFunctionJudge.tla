---------------------------- MODULE IsoFunctionJudge ----------------------------
(* JUDGE for C05.  Observations of harness/isotropic.cxx: LOGERR exponents (-99 = not observed for this case,
   99 = not a number) of the deviation from the exact answer computed by IsoFunctionGen (oracle "spec") or from the
   long double evaluation of the definition on the known decomposition (oracle "harness").  Obligations:
     value        : f(s) = sum f(vp_i) n_i (x) n_i                     (also logarithm, absolute_value, positive_part,
                    negative_part, square_root and the positive part of the decomposition functions)
     derivative   : the returned fourth order tensor applied to every unit direction is the directional
                    derivative (within the eps regularisation when two distinct eigenvalues lie within eps)
     symmetry     : the derivative has the major symmetry
     negative-part, pos+neg=s, dpos+dneg=Id, variants-agree : the positive / negative decomposition *)
EXTENDS IsoFunction, Judge
TolBase(o) == IF o.path = "static" THEN TolStatic ELSE Max2(TolStatic, TolSolver(o.n, o.solver, o.ev))
Bad(x, tol) == x # -99 /\ x > tol
Fails(o) ==
  IF o.threw THEN {"threw"}
  ELSE LET tb == TolBase(o) IN
       (IF Bad(o.F, tb) THEN {"value"} ELSE {})
       \cup (IF Bad(o.DF, TolCase(o)) THEN {"derivative"} ELSE {})
       \cup (IF Bad(o.DNF, TolCase(o)) THEN {"derivative-negative-part"} ELSE {})
       \cup (IF Bad(o.sym, TolStatic) THEN {"symmetry"} ELSE {})
       \cup (IF o.oracle = "parts"
             THEN (IF Bad(o.NF, tb) THEN {"negative-part"} ELSE {})
                  \cup (IF Bad(o.sum, tb) THEN {"pos+neg=s"} ELSE {})
                  \cup (IF Bad(o.did, tb) THEN {"dpos+dneg=Id"} ELSE {})
                  \cup (IF Bad(o.pp2, TolStatic) \/ Bad(o.dpp2, TolStatic) THEN {"variants-agree"} ELSE {})
             ELSE {})
ASSUME JudgeAll(Fails)
=============================================================================

SPECIFICATION Spec
CONSTANTS
  D = 12
  Guard = "end"
INVARIANTS NoOvershoot StopsAtFinalTime

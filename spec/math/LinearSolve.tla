------------------------------- MODULE LinearSolve -------------------------------
(* C07 - dense linear solvers return true solutions or report failure.
   Meaning: a system is (A, x0) with A an integer n x n matrix and x0 an integer vector; the right-hand
   side is b = A.x0 (exact), so for det A # 0 the unique solution is x0 and for det A = 0 the solver must
   report failure.  Matrices are functions [1..n -> [1..n -> Int]].
   Small systems (n <= 3) are enumerated completely over a lattice with the determinant computed from its
   definition; larger ones (n = 4..12) are constructed as P.L.U (L unit lower triangular, U upper
   triangular with diagonal d, P a cyclic row permutation) so that det = +- prod d is known by construction,
   and structurally singular variants (zero row, zero column, duplicated row, doubled row) where
   elimination meets an exactly null pivot. *)
EXTENDS Integers, Sequences, FiniteSets
MatN(n, f(_, _)) == [i \in 1..n |-> [j \in 1..n |-> f(i, j)]]
RECURSIVE SumTo(_, _)
SumTo(f(_), k) == IF k = 0 THEN 0 ELSE f(k) + SumTo(f, k - 1)
MulN(n, A, B) == MatN(n, LAMBDA i, j : SumTo(LAMBDA k : A[i][k] * B[k][j], n))
MulVec(n, A, x) == [i \in 1..n |-> SumTo(LAMBDA k : A[i][k] * x[k], n)]
Det1(A) == A[1][1]
Det2(A) == A[1][1] * A[2][2] - A[1][2] * A[2][1]
Det3(A) == A[1][1] * (A[2][2] * A[3][3] - A[2][3] * A[3][2])
         - A[1][2] * (A[2][1] * A[3][3] - A[2][3] * A[3][1])
         + A[1][3] * (A[2][1] * A[3][2] - A[2][2] * A[3][1])
DetSmall(n, A) == IF n = 1 THEN Det1(A) ELSE IF n = 2 THEN Det2(A) ELSE Det3(A)
X0(n) == [i \in 1..n |-> IF i % 2 = 1 THEN i ELSE -i]          \* 1, -2, 3, -4, ...
\* ---- constructed matrices ----
Lo(n, v) == MatN(n, LAMBDA i, j : IF i = j THEN 1 ELSE IF i > j THEN ((i * j + v) % 3) - 1 ELSE 0)
Dg(i, v) == IF (i + v) % 3 = 0 THEN 2 ELSE IF (i + v) % 3 = 1 THEN 1 ELSE -1
Up(n, v) == MatN(n, LAMBDA i, j : IF i = j THEN Dg(i, v) ELSE IF i < j THEN ((i + 2 * j + v) % 5) - 2 ELSE 0)
Rot(n, v, i) == ((i + v - 1) % n) + 1                             \* cyclic row permutation
PLU(n, v) == LET M == MulN(n, Lo(n, v), Up(n, v)) IN MatN(n, LAMBDA i, j : M[Rot(n, v, i)][j])
\* structurally singular variants of a regular matrix
ZeroRow(n, A, r) == MatN(n, LAMBDA i, j : IF i = r THEN 0 ELSE A[i][j])
ZeroCol(n, A, c) == MatN(n, LAMBDA i, j : IF j = c THEN 0 ELSE A[i][j])
DupRow(n, A, r, s) == MatN(n, LAMBDA i, j : IF i = r THEN A[s][j] ELSE A[i][j])
DblRow(n, A, r, s) == MatN(n, LAMBDA i, j : IF i = r THEN 2 * A[s][j] ELSE A[i][j])
\* oracle theorems: the constructions have the determinants they claim (checked for n = 3 where Det3 is available)
Theorems == \A v \in 0..5 : /\ Det3(PLU(3, v)) # 0
                            /\ Det3(ZeroRow(3, PLU(3, v), 2)) = 0 /\ Det3(ZeroCol(3, PLU(3, v), 3)) = 0
                            /\ Det3(DupRow(3, PLU(3, v), 3, 1)) = 0 /\ Det3(DblRow(3, PLU(3, v), 1, 2)) = 0
=============================================================================

------------------------- MODULE StensorAlgebraJudge -------------------------
(* JUDGE for C01: every observation of harness/stensor.cxx against the matrix meaning.
   An observation carries the case (kind, n, inputs) and, per operation, the nearest integer of the
   (exactly rescaled) result; `loose` lists operations whose result was not within tolerance of an
   integer. *)
EXTENDS StensorAlgebra, Judge
Eq(name, got, want) == IF got = want THEN {} ELSE {name}
FailsUnary(o) ==
  LET c == o.a IN
     Eq("trace", o.tr, ETrace(c)) \cup Eq("det", o.det, EDet(c))
     \cup (IF EDet(c) # 0 THEN Eq("invert", o.adj, EAdj(c)) ELSE {})
     \cup Eq("square", o.sq, ESquare(c)) \cup Eq("deviator", o.dev3, EDev3(c)) \cup Eq("sigmaeq", o.seq6, ESeq6(c))
     \cup Eq("exportTab", o.tab, ETab(c)) \cup Eq("importTab", o.itab, c) \cup Eq("importVoigt", o.ivoigt, c)
     \cup Eq("getComponent", o.get, EGet(c)) \cup Eq("setComponent", o.set, c)
     \cup Eq("buildFromMatrix", o.frommat, c)
FailsBinary(o) ==
     Eq("contraction", o.con, EContract(o.a, o.b)) \cup Eq("symmetric_product", o.symprod2, ESymProd2(o.a, o.b))
     \cup Eq("add", o.add, EAdd(o.a, o.b))
FailsRot(o) == Eq("change_basis", o.rot, ERot(o.a, OfRowMajor(o.m)))
Fails(o) == (IF o.kind = "unary" THEN FailsUnary(o) ELSE IF o.kind = "binary" THEN FailsBinary(o) ELSE FailsRot(o))
            \cup {"inexact:" \o o.loose[i] : i \in 1..Len(o.loose)}
ASSUME JudgeAll(Fails)
=============================================================================

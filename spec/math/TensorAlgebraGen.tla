-------------------------- MODULE TensorAlgebraGen --------------------------
\* GEN for C02: the lattices of cases, written as ndjson for harness/tensor4.cxx.   TIER = quick | thorough.
\* Second-order operands are exhaustive small lattices ; bilinear / trilinear operations are probed on
\* (basis + generic) x (basis + generic), which determines a multilinear map completely ; fourth-order operands are
\* every elementary reduced array against dense generic arrays (and conversely), projectors and dyadic products.
EXTENDS TensorAlgebra, TLC, Json, IOUtils, SequencesExt, FiniteSetsExt
Thorough == IOEnv.TIER = "thorough"
R1 == -1..1
R2 == -2..2
B01 == 0..1
PM == {-1, 1}
\* ---- second-order operands ----
Tens(n, D) == {Embed9(n, c) : c \in [1..NF(n) -> D]}
SymT(n, D) == IF n = 1 THEN {<<a, b, c, 0, 0, 0>> : a \in D, b \in D, c \in D}
              ELSE IF n = 2 THEN {<<a, b, c, d, 0, 0>> : a \in D, b \in D, c \in D, d \in D}
              ELSE {<<a, b, c, d, e, f>> : a \in D, b \in D, c \in D, d \in D, e \in D, f \in D}
ElemT(n) == [e \in 1..NF(n) |-> [q \in 1..9 |-> IF q = e THEN 1 ELSE 0]]
ElemS(n) == [e \in 1..NS(n) |-> [q \in 1..6 |-> IF q = e THEN 1 ELSE 0]]
\* generic / unimodular / singular probes (det of the third of each list is +-1, the fourth is singular)
ProbeT(n) == IF n = 1 THEN << <<1, 2, 3, 0, 0, 0, 0, 0, 0>>, <<-1, 1, 2, 0, 0, 0, 0, 0, 0>>, <<1, -1, 1, 0, 0, 0, 0, 0, 0>>, <<0, 1, 2, 0, 0, 0, 0, 0, 0>> >>
             ELSE IF n = 2 THEN << <<1, 2, 3, 4, 5, 0, 0, 0, 0>>, <<1, -1, 2, 3, -2, 0, 0, 0, 0>>, <<1, 1, 1, 1, 0, 0, 0, 0, 0>>, <<1, 0, 1, 0, 0, 0, 0, 0, 0>>, <<2, 1, -1, 3, 1, 0, 0, 0, 0>> >>
             ELSE << <<1, 2, 3, 4, 5, 6, 7, 8, 9>>, <<1, -1, 2, 0, 3, -2, 1, 1, -3>>, <<1, 1, 1, 1, 0, 1, 0, 0, 1>>, <<1, 0, 0, 1, 0, 0, 0, 0, 0>>,
                     <<1, 1, -1, 1, 0, 0, 0, 0, 0>>, <<2, 1, 1, 1, 0, 0, 1, 0, 1>> >>
ProbeS(n) == IF n = 1 THEN << <<1, 2, 3, 0, 0, 0>>, <<1, 0, -1, 0, 0, 0>> >>
             ELSE IF n = 2 THEN << <<1, 2, 3, 4, 0, 0>>, <<1, 0, -1, 2, 0, 0>> >>
             ELSE << <<1, 2, 3, 4, 5, 6>>, <<1, 0, -1, 2, -2, 1>> >>
TT(n) == ElemT(n) \o ProbeT(n)
SS(n) == ElemS(n) \o ProbeS(n)
Cyc(seq, e) == seq[((e - 1) % Len(seq)) + 1]
SeqSet(seq) == {seq[i] : i \in 1..Len(seq)}
\* ---- kind tu: one tensor, scale 2^k ----
TuLattice(n) == IF n = 1 THEN Tens(1, R2)
                ELSE IF n = 2 THEN (IF Thorough THEN Tens(2, R2) ELSE Tens(2, R1))
                ELSE (IF Thorough THEN Tens(3, R1) ELSE Tens(3, B01) \cup Tens(3, PM))
Tu == UNION {{[kind |-> "tu", n |-> n, a |-> a, k |-> 0] : a \in TuLattice(n) \cup SeqSet(ProbeT(n))} : n \in 1..3}
      \cup UNION {{[kind |-> "tu", n |-> n, a |-> a, k |-> k] : a \in SeqSet(TT(n)), k \in {40, -40, 300, -300}} : n \in 1..3}
\* ---- kind tb: two tensors ----
Tb == UNION {{[kind |-> "tb", n |-> n, a |-> a, b |-> b] : a \in SeqSet(TT(n)), b \in SeqSet(TT(n))} : n \in 1..3}
      \cup (IF Thorough THEN {[kind |-> "tb", n |-> 3, a |-> a, b |-> b] : a \in Tens(3, B01), b \in SeqSet(ProbeT(3))} ELSE {})
\* ---- kind ts: symmetric tensors s, s2 and a tensor a ----
Ts == UNION {{[kind |-> "ts", n |-> n, s |-> s, s2 |-> ProbeS(n)[2], a |-> a] : s \in SeqSet(SS(n)), a \in SeqSet(TT(n))} : n \in 1..3}
      \cup UNION {{[kind |-> "ts", n |-> n, s |-> s, s2 |-> s2, a |-> ProbeT(n)[2]] : s \in SeqSet(SS(n)), s2 \in SeqSet(SS(n))} : n \in 1..3}
      \cup (IF Thorough THEN {[kind |-> "ts", n |-> 3, s |-> s, s2 |-> ProbeS(3)[1], a |-> a] : s \in SymT(3, R1), a \in SeqSet(ProbeT(3))} ELSE {})
\* ---- rotations ----
Quats(D) == {q \in {<<w, x, y, z>> : w \in D, x \in D, y \in D, z \in D} : QuatNorm(q) # 0}
QuatsZ(D) == {q \in Quats(D) : q[2] = 0 /\ q[3] = 0}
RotSet(n) == IF n = 2 THEN {[m |-> RowMajor(QuatMat(q)), d |-> QuatNorm(q)] : q \in QuatsZ(R2)}
             ELSE {[m |-> RowMajor(QuatMat(q)), d |-> QuatNorm(q)] : q \in Quats(IF Thorough THEN R2 ELSE R1)}
                  \cup {[m |-> RowMajor(M), d |-> 1] : M \in CubeRotations}
TRot == UNION {{[kind |-> "trot", n |-> n, a |-> a, m |-> r.m, d |-> r.d] : a \in SeqSet(ProbeT(n)), r \in RotSet(n)} : n \in 2..3}
\* ---- polar decomposition: F = R.U with R = QuatMat(q) / |q|^2 and U = Q.diag(lam).tQ, Q = QuatMat(qu) / |qu|^2 ----
Lams == {<<1, 2, 3>>, <<1, 1, 2>>, <<2, 2, 2>>, <<1, 4, 9>>, <<3, 1, 1>>, <<2, 1, 2>>}
QU3 == {<<1, 0, 0, 0>>, <<1, 1, 0, 0>>, <<1, 1, 1, 1>>, <<1, -1, 0, 1>>, <<0, 1, 1, 0>>}
UOf(qu, lam) == CompOf(Mul(QuatMat(qu), Mul(Diag(lam[1], lam[2], lam[3]), Transpose(QuatMat(qu)))))
PolarCase(n, q, qu, lam) == [kind |-> "polar", n |-> n, rm |-> Comp9Of(QuatMat(q)), rd |-> QuatNorm(q),
                             um |-> UOf(qu, lam), ud |-> QuatNorm(qu) * QuatNorm(qu)]
Polar == {PolarCase(3, q, qu, lam) : q \in Quats(R1), qu \in (IF Thorough THEN QU3 ELSE {<<1, 0, 0, 0>>, <<1, 1, 1, 1>>, <<1, -1, 0, 1>>}),
                                      lam \in (IF Thorough THEN Lams ELSE {<<1, 2, 3>>, <<1, 1, 2>>, <<2, 2, 2>>})}
         \cup {PolarCase(2, q, qu, lam) : q \in QuatsZ(R2), qu \in {<<1, 0, 0, 0>>, <<1, 0, 0, 1>>, <<2, 0, 0, 1>>}, lam \in Lams}
         \cup {PolarCase(1, <<1, 0, 0, 0>>, <<1, 0, 0, 0>>, lam) : lam \in Lams}
\* ---- fourth-order operands: reduced arrays of dimension n ----
InSS(n, q) == Row(q, 6) <= NS(n) /\ Col(q, 6) <= NS(n)
InTT(n, q) == Row(q, 9) <= NF(n) /\ Col(q, 9) <= NF(n)
InTS(n, q) == Row(q, 9) <= NS(n) /\ Col(q, 9) <= NF(n)
InST(n, q) == Row(q, 6) <= NF(n) /\ Col(q, 6) <= NS(n)
Pos(len, In(_)) == SetToSortSeq({q \in 1..len : In(q)}, <)
ElemArr(len, pos, e) == [q \in 1..len |-> IF q = Cyc(pos, e) THEN 1 ELSE 0]
GenArr(len, w, In(_), v) == [q \in 1..len |-> IF In(q) THEN ((((Row(q, w) * Row(q, w)) + (2 * Col(q, w)) + (Row(q, w) * Col(q, w)) + v) % 7) - 3) ELSE 0]
XE(n, e) == [ss |-> ElemArr(36, Pos(36, LAMBDA q : InSS(n, q)), e), tt |-> ElemArr(81, Pos(81, LAMBDA q : InTT(n, q)), e),
             ts |-> ElemArr(54, Pos(54, LAMBDA q : InTS(n, q)), e), st |-> ElemArr(54, Pos(54, LAMBDA q : InST(n, q)), e)]
XG(n, v) == [ss |-> GenArr(36, 6, LAMBDA q : InSS(n, q), v), tt |-> GenArr(81, 9, LAMBDA q : InTT(n, q), v + 1),
             ts |-> GenArr(54, 9, LAMBDA q : InTS(n, q), v + 2), st |-> GenArr(54, 6, LAMBDA q : InST(n, q), v + 3)]
\* ---- kind special / d4 / p4 / r4 / inv4 ----
Special == {[kind |-> "special", n |-> n] : n \in 1..3}
D4 == UNION {{[kind |-> "d4", n |-> n, a |-> Cyc(TT(n), e), b |-> Cyc(TT(n), e + 3), s |-> Cyc(SS(n), e)] : e \in 1..Len(TT(n))} : n \in 1..3}
      \cup (IF Thorough THEN {[kind |-> "d4", n |-> 3, a |-> a, b |-> ETransp(a), s |-> ProbeS(3)[2]] : a \in Tens(3, B01)} ELSE {})
\* products, applications and chain-rule forms: dense generic operands against each other with (basis + probes) second-order
\* operands, and a sample of the elementary operands on each side (every position in the thorough tier) ; the implementations
\* of the products are loops over the matrix forms, the chain-rule forms are written entry by entry
Step == IF Thorough THEN 1 ELSE 5
Sample(n) == {e \in 1..(NF(n) * NF(n)) : e % Step = 0}
P4 == UNION {{[kind |-> "p4", n |-> n, x |-> XG(n, v), y |-> XG(n, v + 4), a |-> Cyc(TT(n), e + v), s |-> Cyc(SS(n), e)] :
                 v \in 0..2, e \in 1..Len(TT(n))} : n \in 1..3}
      \cup UNION {{[kind |-> "p4", n |-> n, x |-> XE(n, e), y |-> XG(n, 1), a |-> Cyc(ProbeT(n), e), s |-> Cyc(ProbeS(n), e)] : e \in Sample(n)} : n \in 1..3}
      \cup UNION {{[kind |-> "p4", n |-> n, x |-> XG(n, 2), y |-> XE(n, e), a |-> Cyc(ElemT(n), e), s |-> Cyc(ElemS(n), e)] : e \in Sample(n)} : n \in 1..3}
\* conversions between the storage classes, transposition, component access: written entry by entry, every elementary operand
C4 == UNION {{[kind |-> "c4", n |-> n, x |-> XE(n, e)] : e \in 1..(NF(n) * NF(n))} : n \in 1..3}
      \cup UNION {{[kind |-> "c4", n |-> n, x |-> XG(n, v)] : v \in 0..6} : n \in 1..3}
\* fourth-order operands of the change of basis / push-forward / pull-back (written entry by entry in 2D and 3D): two dense
\* generic arrays with different zero patterns (thorough: and six elementary ones)
X4(n) == {XG(n, 0), XG(n, 3)} \cup (IF Thorough THEN {XE(n, e) : e \in {1, 2, NF(n) + 1, (2 * NF(n)) + 2, (3 * NF(n)) + 4, NF(n) * NF(n)}} ELSE {})
\* quick tier in 3D: the 24 rotations of the cube and the integer quaternions of squared norm 3 (the only ones over -1..1 that
\* are not rotations of the cube)
RotSet4(n) == IF n = 3 /\ ~Thorough THEN {rr \in RotSet(3) : rr.d \in {1, 3}} ELSE RotSet(n)
NonSing(n) == SelectSeq(TT(n), LAMBDA h : Det(T(h)) # 0)
R4 == UNION {{[kind |-> "r4", n |-> n, x |-> x, m |-> r.m, d |-> r.d, f |-> ProbeT(n)[1], g |-> ProbeT(n)[3]] : x \in X4(n), r \in RotSet4(n)} : n \in 2..3}
      \cup UNION {{[kind |-> "r4", n |-> n, x |-> x, m |-> RowMajor(Id3), d |-> 1, f |-> Cyc(TT(n), e), g |-> Cyc(NonSing(n), e)] : x \in X4(n),
                e \in 1..Len(TT(n))} : n \in 1..3}
\* invertible st2tost2: al.Id + be.IxI (2.Id is integral) with inverse k^-1 (2(al + 3 be).Id - 2 be.IxI), k = 2 al (al + 3 be), al = 2 a ;
\* and the push-forward maps s -> F.s.tF of invertible F
IsoArr(n, p, b) == RedSS(n, LAMBDA i, j, k, l : (p * IdS2(i, j, k, l)) + (b * IxI(i, j, k, l)))
Inv4 == UNION {{[kind |-> "inv4", n |-> n, xss |-> IsoArr(n, p[1], p[2]), k |-> 4 * p[1] * ((2 * p[1]) + (3 * p[2]))] :
                  p \in {pp \in {1, 2, -1} \X R2 : (2 * pp[1]) + (3 * pp[2]) # 0}} : n \in 1..3}
        \cup UNION {{[kind |-> "inv4", n |-> n, xss |-> EPFD2(n, g), k |-> 4 * Det(T(g)) * Det(T(g))] : g \in {h \in SeqSet(ProbeT(n)) : Det(T(h)) # 0}} : n \in 1..3}
Number(Sq) == [i \in 1..Len(Sq) |-> [id |-> i] @@ Sq[i]]
All == SetToSeq(Special) \o SetToSeq(Tu) \o SetToSeq(Tb) \o SetToSeq(Ts) \o SetToSeq(TRot) \o SetToSeq(Polar)
       \o SetToSeq(D4) \o SetToSeq(P4) \o SetToSeq(C4) \o SetToSeq(R4) \o SetToSeq(Inv4)
ASSUME OracleTheorems(0)
ASSUME ndJsonSerialize(IOEnv.OUT, Number(All))
ASSUME PrintT(<<"GEN", Cardinality(Tu), Cardinality(Tb), Cardinality(Ts), Cardinality(TRot), Cardinality(Polar), Cardinality(D4),
                Cardinality(P4), Cardinality(C4), Cardinality(R4), Cardinality(Inv4)>>)
=============================================================================

SPECIFICATION Spec
CONSTANTS
  D = 12
  Guard = "half"
INVARIANTS NoOvershoot StopsAtFinalTime

---------------------------- MODULE StensorAlgebra ----------------------------
(* C01 - symmetric tensor algebra = algebra of symmetric 3x3 matrices.
   A symmetric tensor of dimension n (1, 2, 3) is given by its components <<11, 22, 33, 12, 13, 23>>
   (the missing ones are zero); its meaning is the matrix SymOf(c).  TFEL stores
   (11, 22, 33, sqrt2.12, sqrt2.13, sqrt2.23); the harness reads components straight from that storage,
   so the library's own converters are themselves under test.
   Every expected value below is an integer computed from the matrix meaning (Mat3.tla). *)
EXTENDS Mat3, Integers, Sequences, FiniteSets
\* ---- expected results of the unary operations on c (six integer components) ----
ETrace(c)  == Trace(SymOf(c))
EDet(c)    == Det(SymOf(c))
EAdj(c)    == CompOf(Adj(SymOf(c)))                   \* det . inverse
ESquare(c) == CompOf(Mul(SymOf(c), SymOf(c)))
EDev3(c)   == CompOf(Dev3(SymOf(c)))                  \* 3 . deviator
ESeq6(c)   == LET D == Dev3(SymOf(c)) IN Contract(D, D) \div 1   \* 6 . sigmaeq^2 = (3 dev):(3 dev) . (3/2) / 9 . 6
\* stress-like Voigt array (exportTab): plain components; strain-like Voigt (importVoigt): doubled shears
ETab(c)    == c
VoigtStrain(c) == <<c[1], c[2], c[3], 2 * c[4], 2 * c[5], 2 * c[6]>>
EGet(c)    == Comp9Of(SymOf(c))
\* ---- binary operations ----
EContract(a, b) == Contract(SymOf(a), SymOf(b))
\* symmetric product a .s b = (a.b + b.a)/2 (docs/web/tensors.md, release notes 3.0.18; the comment in
\* stensor.hxx omits the 1/2): the observation is 2 . result
ESymProd2(a, b) == CompOf(Add(Mul(SymOf(a), SymOf(b)), Mul(SymOf(b), SymOf(a))))
EAdd(a, b)      == CompOf(Add(SymOf(a), SymOf(b)))
\* ---- change of basis by R = M / d: d^2 . R^T A R ----
ERot(c, M)  == CompOf(ChangeBasis(SymOf(c), M))
\* ---- sanity theorems of the oracle itself, checked by TLC on a lattice ----
Small == -1..1
SmallSym == {<<a, b, c, d, e, f>> : a \in Small, b \in Small, c \in Small, d \in Small, e \in Small, f \in Small}
OracleTheorems ==
  /\ \A c \in SmallSym : LET A == SymOf(c) IN
        /\ Mul(Adj(A), A) = Scale(Det(A), Id3)                              \* adjugate
        /\ IsSym(Mul(A, A)) /\ Trace(Dev3(A)) = 0
        /\ LET A2 == Mul(A, A) A3 == Mul(A2, A)                             \* Cayley-Hamilton
               i1 == Trace(A) i2 == (Trace(A) * Trace(A) - Trace(A2)) \div 2 i3 == Det(A)
           IN  Add(Sub(A3, Scale(i1, A2)), Sub(Scale(i2, A), Scale(i3, Id3))) = Zero3
        /\ Contract(A, A) = Trace(Mul(A, Transpose(A)))
  /\ \A R \in CubeRotations : Mul(R, Transpose(R)) = Id3 /\ Det(R) = 1
  /\ Cardinality(CubeRotations) = 24
  /\ \A q \in {<<1, 1, 0, 0>>, <<1, 2, -1, 2>>, <<0, 1, 1, 1>>, <<2, 0, 0, 1>>} :
        LET M == QuatMat(q) n == QuatNorm(q) IN Mul(M, Transpose(M)) = Scale(n * n, Id3) /\ Det(M) = n * n * n
=============================================================================

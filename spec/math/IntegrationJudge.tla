---------------------------- MODULE IntegrationJudge ----------------------------
(* observations: q = nearest integer of (result - y0) * den, tight; for quadrature also swapped (b, a), the
   error-estimate class; halfinf: value of the adaptive overload on [a, +inf) / (-inf, a] (or the bounds swapped), q at 1e-8;
   error-estimate class ("zero" iff below 1e-12 of the scale) and has = the optional holds a value *)
EXTENDS IntegrationExact, Judge
Check(name, b) == IF b THEN {} ELSE {name}
Times(r, den) == IF den % r[2] = 0 THEN r[1] * (den \div r[2]) ELSE -999999
Fails(o) ==
  IF o.kind = "quad"
  THEN Check("quadrature:value", o.has = 1 /\ o.tight /\ o.q = Times(MonomialIntegral(o.k, o.a, o.b), o.den))
       \cup Check("quadrature:adaptive", o.hasad = 0 \/ (o.tightad /\ o.qad = Times(MonomialIntegral(o.k, o.a, o.b), o.den)))
       \cup Check("quadrature:error-estimate", o.k > 13 \/ o.err = "zero")
  ELSE IF o.kind = "halfinf"
  THEN Check("quadrature:half-infinite:" \o o.side, o.has = 1 /\ o.tight /\ o.q = Times(HalfInfiniteIntegral(o.side, o.m, o.a, o.swapped), o.den))
  ELSE Check(o.scheme \o ":final-value", o.tight /\ o.q = Times(MonomialIntegral(o.k, o.ti, o.tf), o.den))
       \cup Check(o.scheme \o ":final-time", o.k # 0 \/ (o.tight /\ o.q = o.tf - o.ti))
ASSUME JudgeAll(Fails)
=============================================================================

------------------------------ MODULE NonLinearSolver ------------------------------
(* C08 - control flow of TinyNonLinearSolverBase::solveNonLinearSystem / solveNonLinearSystem2
   (include/TFEL/Math/NonLinearSolvers/TinyNonLinearSolverBase.ixx), shared by the Newton-Raphson, Broyden,
   Broyden2, Powell dog-leg (Newton / Broyden) and Levenberg-Marquardt solvers.  The numerical outcome of
   each step (residual evaluation ok?, norm finite?, converged?, correction computed?) is nondeterministic.

     solveNonLinearSystem : iter := 0 ; while iter # iterMax { processNewEstimate ; if core() return true ;
                            if iter = iterMax break ; halve the last correction (or the unknowns) ; ++iter } ; fail
     core                 : loop { residual (fail -> reject, report, false) ; norm (non finite -> reject, report, false) ;
                            report ; converged ? -> true ; correction (fail -> report, false) ;
                            zeros += delta ; processNewEstimate ; ++iter ; iter = iterMax ? -> false }

   zver = version of the unknowns (incremented whenever they change), rver = version at which the residual
   was last successfully evaluated. *)
EXTENDS Integers, TLC
CONSTANTS IterMax
VARIABLES pc, iter, zver, rver, lastFinite, lastConv, result
vars == <<pc, iter, zver, rver, lastFinite, lastConv, result>>
Init == pc = "outer" /\ iter = 0 /\ zver = 0 /\ rver = -1 /\ lastFinite = FALSE /\ lastConv = FALSE /\ result = "none"
\* while (iter != iterMax) { processNewEstimate(); ...
Outer == /\ pc = "outer"
         /\ IF iter # IterMax THEN pc' = "residual" /\ result' = result ELSE pc' = "done" /\ result' = "failure"
         /\ UNCHANGED <<iter, zver, rver, lastFinite, lastConv>>
Residual == /\ pc = "residual"
            /\ \E ok \in BOOLEAN : IF ok THEN rver' = zver /\ pc' = "norm" ELSE rver' = rver /\ pc' = "restart"
            /\ UNCHANGED <<iter, zver, lastFinite, lastConv, result>>
Norm == /\ pc = "norm"
        /\ \E fin \in BOOLEAN : lastFinite' = fin /\ pc' = (IF fin THEN "check" ELSE "restart")
        /\ UNCHANGED <<iter, zver, rver, lastConv, result>>
Check == /\ pc = "check"
         /\ \E c \in BOOLEAN : /\ lastConv' = c
                               /\ IF c THEN pc' = "done" /\ result' = "success" ELSE pc' = "correction" /\ result' = result
         /\ UNCHANGED <<iter, zver, rver, lastFinite>>
\* computeNewCorrection (Levenberg-Marquardt may step back, i.e. change the unknowns, inside it), then zeros += delta
Correction == /\ pc = "correction"
              /\ \E ok \in BOOLEAN : \E back \in BOOLEAN :
                   IF ok THEN /\ zver' = zver + (IF back THEN 2 ELSE 1) /\ iter' = iter + 1
                              /\ pc' = (IF iter + 1 = IterMax THEN "restart" ELSE "residual")
                         ELSE /\ pc' = "restart" /\ zver' = zver + (IF back THEN 1 ELSE 0) /\ iter' = iter
              /\ UNCHANGED <<rver, lastFinite, lastConv, result>>
\* back in solveNonLinearSystem after a failed core loop
Restart == /\ pc = "restart"
           /\ IF iter = IterMax THEN pc' = "done" /\ result' = "failure" /\ UNCHANGED <<zver, iter>>
              ELSE zver' = zver + 1 /\ iter' = iter + 1 /\ pc' = "outer" /\ result' = result
           /\ UNCHANGED <<rver, lastFinite, lastConv>>
Done == pc = "done" /\ UNCHANGED vars
Next == Outer \/ Residual \/ Norm \/ Check \/ Correction \/ Restart \/ Done
Spec == Init /\ [][Next]_vars
FairSpec == Spec /\ WF_vars(Outer \/ Residual \/ Norm \/ Check \/ Correction \/ Restart)
\* C08
IterBound == iter <= IterMax
SoundSuccess == result = "success" => (rver = zver /\ lastFinite /\ lastConv)
Terminates == <>(pc = "done")
=============================================================================

--------------------------- MODULE NonLinearSolverGen ---------------------------
(* GEN for C08: solvers x sizes x iteration budgets x problems x failure schedules (evaluation numbers at which
   the residual evaluation fails or returns NaN).  must = 1 marks the cases of the basin obligation: Newton-Raphson
   on the quadratic system started 20 % away from its root, without injected failure, with a budget of 30. *)
EXTENDS Integers, Sequences, TLC, Json, IOUtils, SequencesExt, FiniteSets
Thorough == IOEnv.TIER = "thorough"
Solvers == {"NR", "BR", "BR2", "PNR", "PBR", "LM"}
Sizes == IF Thorough THEN {1, 2, 4, 8} ELSE {1, 4}
Budgets == {0, 1, 2, 3, 6, 30}
Schedules == {<<<<>>, <<>>>>, <<<<1>>, <<>>>>, <<<<2>>, <<>>>>, <<<<>>, <<1>>>>, <<<<>>, <<2>>>>, <<<<3>>, <<2>>>>, <<<<1, 2>>, <<>>>>,
              <<<<>>, <<3, 4>>>>, <<<<4>>, <<>>>>, <<<<2, 3, 4, 5, 6, 7>>, <<>>>>}
Cases == {[solver |-> s, n |-> n, itermax |-> b, problem |-> p, fail |-> sc[1], nan |-> sc[2], start10 |-> st,
           must |-> IF s = "NR" /\ p \in {"quad", "lin"} /\ sc = <<<<>>, <<>>>> /\ b = 30 /\ st = 12 THEN 1 ELSE 0] :
            s \in Solvers, n \in Sizes, b \in Budgets, p \in {"quad", "lin", "flat"}, sc \in Schedules, st \in {12, 30}}
Number(S) == LET s == SetToSeq(S) IN [i \in 1..Len(s) |-> [id |-> i] @@ s[i]]
ASSUME ndJsonSerialize(IOEnv.OUT, Number(Cases))
ASSUME PrintT(<<"GEN", Cardinality(Cases)>>)
=============================================================================

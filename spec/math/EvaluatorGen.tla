------------------------------ MODULE EvaluatorGen ------------------------------
(* GEN for C13/C14: arithmetic trees with their printings, denominators of the exact value and of the exact
   derivatives; function / rejection cases are fixed lists interpreted by the harness and judged by
   EvaluatorJudge. *)
EXTENDS Evaluator, Json, IOUtils, SequencesExt, FiniteSets
Thorough == IOEnv.TIER = "thorough"
T1 == {Num(1), Num(2), Var("x"), Var("y")}
T2 == T1 \cup {Neg(a) : a \in T1} \cup {Bin(op, a, b) : op \in Ops, a \in T1, b \in T1}
T3 == IF Thorough THEN {Bin(op, a, b) : op \in Ops, a \in T2, b \in T2} \cup {Neg(a) : a \in T2}
      ELSE {Bin(op, a, b) : op \in Ops, a \in T2, b \in T1} \cup {Bin(op, a, b) : op \in Ops, a \in T1, b \in T2} \cup {Neg(a) : a \in T2}
Trees == {e \in T2 \cup T3 : Val(e)[1]}
DVal(e, v) == IF ExpIndep(e, v) /\ Val(D(e, v))[1] THEN Val(D(e, v))[2] ELSE <<0, 0>>     \* <<0,0>> = not judged exactly
Arith == {[kind |-> "arith", fmin |-> PrMin(e, ""), fws |-> PrMin(e, " "), ffull |-> PrFull(e),
           den |-> Val(e)[2][2], ddx |-> DVal(e, "x")[2], ddy |-> DVal(e, "y")[2], tree |-> e] : e \in Trees}
\* documented function names (docs/web/math.md) with arguments chosen in and out of their domains
Unary == {"exp", "exp2", "expm1", "sqrt", "cbrt", "ln", "log", "log10", "log2", "log1p", "cosh", "sinh", "tanh", "acosh", "asinh",
          "atanh", "abs", "cos", "sin", "tan", "acos", "asin", "atan", "erf", "erfc", "tgamma", "lgamma", "H"}
Binary == {"max", "min", "hypot", "atan2"}
\* compositions (chain rule through two functions)
Outer == {"exp", "sin", "cos", "tanh", "atan", "sqrt", "log1p", "cbrt", "erf", "asinh"}
Inner == {"exp", "cosh", "sin", "abs", "atan"}
Args == {"x/4", "x", "-y/4", "x*y/8"}                    \* 1/2, 2, -3/4, 3/4
Fn == {[kind |-> "fn", f |-> f, arg |-> a, formula |-> "1+" \o f \o "(" \o a \o ")*2"] : f \in Unary, a \in Args}
      \cup {[kind |-> "fn2", f |-> f, arg |-> a, arg2 |-> b, formula |-> f \o "(" \o a \o "," \o b \o ")-1"] : f \in Binary, a \in Args, b \in Args}
      \cup {[kind |-> "fnn", f |-> f, g |-> g, arg |-> a, formula |-> f \o "(" \o g \o "(" \o a \o "))+" \o a] : f \in Outer, g \in Inner, a \in Args}
      \cup {[kind |-> "power", n |-> n, arg |-> a, formula |-> "power<" \o ToString(n) \o ">(" \o a \o ")"] : n \in {1, 2, 3, 16}, a \in Args}
\* token strings that no reading of the documented language derives: the evaluator must throw
Bad == {"", "()", "(", ")", "1+", "x*", "*x", "/2", "**2", "1*/2", "1+*2", "x y", "1 2", "(1+2", "1+2)", "((x)", "x)(", "sin(", "sin()",
        "1,2", "max(1)", "max(1,)", "max(,1)", "x**", "1-", "2**", "(*)", "x+()", "1 + + * 2", "1 / / 2", ")x(", "x 2 +", "1..2", "1e+", "power<2>"}
Reject == {[kind |-> "reject", formula |-> s] : s \in Bad}
\* formulas on which the documentation is silent (a binary operator followed by a unary minus, doubled signs):
\* either outcome is admissible, but never a crash, and an accepted "a op -b" must mean a op (-b)
Silent == {[kind |-> "silent", formula |-> f[1], num |-> f[2], den |-> f[3]] :
             f \in {<<"1+-2", -1, 1>>, <<"1+-x", -1, 1>>, <<"x+-y*2", -4, 1>>, <<"1--2", 3, 1>>, <<"2*-3", -6, 1>>, <<"2/-3", -2, 3>>,
                    <<"2**-1", 1, 2>>, <<"-(-x)", 2, 1>>, <<"--x", 2, 1>>, <<"1+ -2", -1, 1>>, <<"(1)+-(2)", -1, 1>>, <<"y*x+-1", 5, 1>>,
                    <<"1-+2", -1, 1>>, <<"+1", 1, 1>>}}
\* ---- conditional and logical expressions ----
Operands == {Num(1), Num(2), Num(3), Var("x"), Var("y"), Bin("+", Var("x"), Num(1)), Bin("-", Var("y"), Num(1)), Bin("*", Num(2), Var("x")),
             Bin("*", Var("x"), Var("y")), Neg(Var("x")), Bin("*", Bin("+", Var("x"), Num(1)), Num(2)), Bin("/", Var("x"), Num(2))}
Cmps == {Cmp(op, a, b) : op \in CmpOps, a \in Operands, b \in Operands}
\* representatives that hold / do not hold at (x, y) = (2, 3), equalities included
Reps == {Cmp("<", Var("x"), Var("y")), Cmp("<", Var("y"), Var("x")), Cmp(">=", Bin("+", Var("x"), Num(1)), Var("y")), Cmp(">", Bin("+", Var("x"), Num(1)), Var("y")),
         Cmp("==", Bin("*", Num(2), Var("x")), Bin("+", Var("y"), Num(1))), Cmp("<=", Var("y"), Num(2))}
L2 == {And(a, b) : a \in Reps, b \in Reps} \cup {Or(a, b) : a \in Reps, b \in Reps} \cup {Not(a) : a \in Reps}
Rep2 == {Cmp("<", Var("x"), Var("y")), Cmp("<", Var("y"), Var("x"))}
L3 == UNION {{Or(a, And(b, c)), Or(And(a, b), c), And(a, Or(b, c)), And(Or(a, b), c), And(a, And(b, c)), Or(a, Or(b, c)), Not(And(a, Not(b))), And(Not(a), Or(b, c))} :
             a \in Rep2, b \in Rep2, c \in Rep2}
Logicals == Cmps \cup L2 \cup L3
CondCase(c, a, b, pre, post) ==
  [kind |-> "cond", fmin |-> pre \o PrCond(Cond(c, a, b)) \o post, ffull |-> pre \o PrCondFull(Cond(c, a, b)) \o post,
   inner |-> CondVal(Cond(c, a, b))[1], innerden |-> CondVal(Cond(c, a, b))[2], wrap |-> pre,
   \* C14: the derivative of a conditional expression is the conditional expression of the derivatives of its branches
   dxi |-> CondVal(Cond(c, D(a, "x"), D(b, "x")))[1], dyi |-> CondVal(Cond(c, D(a, "y"), D(b, "y")))[1],
   dden |-> CondVal(Cond(c, D(a, "x"), D(b, "x")))[2] * CondVal(Cond(c, D(a, "y"), D(b, "y")))[2]]
Conds == {CondCase(c, Num(10), Num(20), "", "") : c \in Logicals}
         \cup {CondCase(c, Var("x"), Bin("+", Var("y"), Num(1)), "", "") : c \in L2 \cup L3}
         \cup {CondCase(c, Num(1), Neg(Num(1)), "2*(", ")") : c \in Reps \cup L3}
         \cup {CondCase(c, Var("x"), Var("y"), "1+(", ")") : c \in Reps \cup L3}
\* ---- parameters and external functions ----
Envs == {[p |-> ep, q |-> eq, f |-> ef] :
           ep \in {Num(3), Bin("+", Num(1), Num(2))},
           eq \in {Bin("*", Var("p"), Num(2)), Bin("-", Num(1), Var("p"))},
           ef \in {Bin("+", Bin("*", Var("u"), Var("u")), Num(1)), Bin("-", Var("u"), Var("p")), Bin("*", Var("q"), Var("u"))}}
DLeaves == {Var("x"), Var("y"), Var("p"), Var("q"), Num(2)}
DArgs == DLeaves \cup {Bin("+", Var("x"), Var("p")), Bin("*", Var("q"), Var("y"))}
DTrees == {Bin(op, a, b) : op \in {"+", "-", "*", "/"}, a \in DLeaves, b \in DLeaves}
          \cup {Call(a) : a \in DArgs} \cup {Bin(op, Call(a), b) : op \in {"+", "*", "/"}, a \in DArgs, b \in {Var("p"), Var("x")}}
          \cup {Call(Call(a)) : a \in DLeaves} \cup {Neg(Call(Neg(a))) : a \in DLeaves}
DepCase(g, env) ==
  LET v0 == Val(Resolved(g, env, env.p)) IN
  [kind |-> "deps", formula |-> PrMin(g, ""), pf |-> PrMin(env.p, ""), qf |-> PrMin(env.q, ""), ff |-> PrMin(env.f, ""),
   ok0 |-> v0[1], n0 |-> v0[2][1], d0 |-> v0[2][2], direct |-> DependsOn(g, "p")]
Deps == {c \in {DepCase(g, env) : g \in DTrees, env \in Envs} : c.ok0}
Number(S) == LET s == SetToSeq(S) IN [i \in 1..Len(s) |-> [id |-> i] @@ s[i]]
ASSUME Theorems
ASSUME ndJsonSerialize(IOEnv.OUT, Number(Arith \cup Fn \cup Reject \cup Silent \cup Conds \cup Deps))
ASSUME \A c \in Conds : c.innerden = 1 /\ c.dden = 1
ASSUME PrintT(<<"GEN", Cardinality(Arith), Cardinality(Fn), Cardinality(Reject), Cardinality(Conds), Cardinality(Deps)>>)
=============================================================================

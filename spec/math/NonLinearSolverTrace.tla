--------------------------- MODULE NonLinearSolverTrace ---------------------------
(* Trace validation of the real solvers against NonLinearSolver.tla (C08).  The CRTP child of each solver logs
   every callback (no hook needed): a = first argument, it = the solver's iteration counter, zv = version of
   the unknowns (incremented by the harness whenever their content changed since the previous event):
     Begin(a = iterMax, b = 1 iff success is required: Newton started inside its basin)
     PNE (processNewEstimate)   Res(a = 1 ok / 0 failed)   Norm(a = 1 finite / 0 not)   Std   Conv(a = 1 / 0)
     Corr(a = 1 / 0)   PNC   Reject   Invalid   CorrFail   Success   Failure   End(a = 1 iff the returned
     unknowns are the known root within tolerance; b = value returned by solveNonLinearSystem) *)
EXTENDS NonLinearSolver, TraceIO
VARIABLES imax, must, sub     \* iterMax of the current run, success required?, sub-state inside an action
tvars == <<vars, l, imax, must, sub>>
TraceInit == Init /\ l = 1 /\ imax = 0 /\ must = FALSE /\ sub = "idle"
Bind == iter' = Ev.it /\ zver' = Ev.zv
TBegin == /\ IsEvent("Begin") /\ sub \in {"idle", "ended"}
          /\ pc' = "outer" /\ iter' = 0 /\ zver' = Ev.zv /\ rver' = -1 /\ lastFinite' = FALSE /\ lastConv' = FALSE /\ result' = "none"
          /\ imax' = Ev.a /\ must' = (Ev.b = 1) /\ sub' = "run"
\* processNewEstimate: at the top of the outer loop, or right after zeros += delta inside the core loop
TPNE == /\ IsEvent("PNE") /\ sub = "run"
        /\ \/ pc = "outer" /\ Ev.it # imax /\ pc' = "residual" /\ Bind
           \* ... zeros += delta ; processNewEstimate ; ++iter : the callback still sees the old counter
           \/ pc = "updated" /\ Ev.it = iter /\ iter' = iter + 1 /\ zver' = Ev.zv
              /\ pc' = (IF iter + 1 = imax THEN "restart" ELSE "residual")
        /\ UNCHANGED <<rver, lastFinite, lastConv, result, imax, must, sub>>
TRes == /\ IsEvent("Res") /\ pc = "residual" /\ Bind
        /\ IF Ev.a = 1 THEN rver' = Ev.zv /\ pc' = "norm" ELSE rver' = rver /\ pc' = "rejecting"
        /\ UNCHANGED <<lastFinite, lastConv, result, imax, must, sub>>
TNorm == /\ IsEvent("Norm") /\ pc = "norm" /\ Bind
         /\ lastFinite' = (Ev.a = 1) /\ pc' = (IF Ev.a = 1 THEN "std" ELSE "rejecting")
         /\ UNCHANGED <<rver, lastConv, result, imax, must, sub>>
TReject == IsEvent("Reject") /\ pc = "rejecting" /\ Bind /\ pc' = "invalid" /\ UNCHANGED <<rver, lastFinite, lastConv, result, imax, must, sub>>
TInvalid == IsEvent("Invalid") /\ pc = "invalid" /\ Bind /\ pc' = "restart" /\ UNCHANGED <<rver, lastFinite, lastConv, result, imax, must, sub>>
TStd == IsEvent("Std") /\ pc = "std" /\ Bind /\ pc' = "check" /\ UNCHANGED <<rver, lastFinite, lastConv, result, imax, must, sub>>
TConv == /\ IsEvent("Conv") /\ pc = "check" /\ Bind
         /\ lastConv' = (Ev.a = 1) /\ pc' = (IF Ev.a = 1 THEN "converged" ELSE "correction")
         /\ UNCHANGED <<rver, lastFinite, result, imax, must, sub>>
TCorr == /\ IsEvent("Corr") /\ pc = "correction" /\ Bind
         /\ pc' = (IF Ev.a = 1 THEN "pnc" ELSE "corrfail")
         /\ UNCHANGED <<rver, lastFinite, lastConv, result, imax, must, sub>>
TCorrFail == IsEvent("CorrFail") /\ pc = "corrfail" /\ Bind /\ pc' = "restart" /\ UNCHANGED <<rver, lastFinite, lastConv, result, imax, must, sub>>
TPNC == IsEvent("PNC") /\ pc = "pnc" /\ Bind /\ pc' = "updated" /\ UNCHANGED <<rver, lastFinite, lastConv, result, imax, must, sub>>
TSuccess == /\ IsEvent("Success") /\ pc = "converged" /\ Bind
            /\ result' = "success" /\ pc' = "done" /\ UNCHANGED <<rver, lastFinite, lastConv, imax, must, sub>>
\* after a failed core loop: either the budget is exhausted (Failure) or the estimate is halved and the outer loop goes on
TFailure == /\ IsEvent("Failure") /\ Bind
            /\ \/ pc = "restart" /\ (iter = imax \/ iter + 1 = imax)
               \/ pc = "outer" /\ iter = imax
            /\ result' = "failure" /\ pc' = "done" /\ UNCHANGED <<rver, lastFinite, lastConv, imax, must, sub>>
TRestartPNE == /\ IsEvent("PNE") /\ pc = "restart" /\ sub = "run" /\ iter # imax /\ Ev.it = iter + 1 /\ Ev.it # imax
               /\ Bind /\ pc' = "residual" /\ UNCHANGED <<rver, lastFinite, lastConv, result, imax, must, sub>>
TEnd == /\ IsEvent("End") /\ pc = "done" /\ sub = "run"
        /\ (Ev.b = 1) = (result = "success")                  \* the returned boolean is the reported outcome
        /\ (must => (result = "success" /\ Ev.a = 1))        \* Newton inside its basin converges to the root
        /\ sub' = "ended" /\ UNCHANGED <<vars, imax, must>>
TraceNext == TBegin \/ TPNE \/ TRes \/ TNorm \/ TReject \/ TInvalid \/ TStd \/ TConv \/ TCorr \/ TCorrFail \/ TPNC
             \/ TSuccess \/ TFailure \/ TRestartPNE \/ TEnd
TraceSpec == TraceInit /\ [][TraceNext]_tvars
TIterBound == sub = "run" => iter <= imax
=============================================================================

------------------------------- MODULE ScalarNewton -------------------------------
(* C09 - scalarNewtonRaphson (Newton steps safeguarded by a bisection bracket) is sound and bracket-confined.
   A run is observed through the user functor and the user criterion (the seam), values abstracted:
   xr = dense rank of the abscissa among all abscissae of the run (order isomorphic), xfin / ffin = finiteness,
   fs = sign of the function value (-1, 0, 1; 2 when not finite).
     Begin(a = budget im, hasb = a bracket (xmin0, xmax0) was supplied, lo, hi = its ranks)
     Eval(xr, xfin, ffin, fs)            every call of the functor, in order
     Crit(xr, xfin, ffin, res, i)         every call of the criterion with its answer
     Return(conv, xr, xfin, i)            the returned tuple
   The specification replays the run and keeps: the number of evaluations, whether the supplied bracket is a
   valid sign-changing one (both end evaluations finite with strictly opposite signs), and the last criterion
   call.  Obligations (C09) are stated as invariants on this state. *)
EXTENDS Integers, Sequences, TLC
VARIABLES im, hasb, lo, hi, neval, flo, fhi, valid, crit, ret, phase
svars == <<im, hasb, lo, hi, neval, flo, fhi, valid, crit, ret, phase>>
NoCrit == [xr |-> -2, xfin |-> FALSE, ffin |-> FALSE, res |-> FALSE, i |-> -1]
NoRet == [conv |-> FALSE, xr |-> -2, xfin |-> FALSE, i |-> 0, outside |-> FALSE]
SInit == im = 0 /\ hasb = FALSE /\ lo = 0 /\ hi = 0 /\ neval = 0 /\ flo = 2 /\ fhi = 2 /\ valid = FALSE
         /\ crit = NoCrit /\ ret = NoRet /\ phase = "idle"
\* a new run
SBegin(b, h, l, u) == /\ im' = b /\ hasb' = h /\ lo' = l /\ hi' = u /\ neval' = 0 /\ flo' = 2 /\ fhi' = 2 /\ valid' = FALSE
                      /\ crit' = NoCrit /\ ret' = NoRet /\ phase' = "run"
\* the code evaluates x0 first, then the lower and the upper end of the bracket (when finite)
SEval(xr, xfin, ffin, fs) ==
  /\ phase = "run" /\ neval' = neval + 1
  /\ flo' = (IF hasb /\ neval = 1 THEN fs ELSE flo)
  /\ fhi' = (IF hasb /\ neval = 2 THEN fs ELSE fhi)
  /\ valid' = (IF hasb /\ neval = 2 THEN (flo * fs = -1 /\ lo < hi) ELSE valid)
  \* bracket confinement: once the bracket is known to be valid, every estimate lies inside it
  /\ ret' = (IF valid /\ (~xfin \/ xr < lo \/ xr > hi) THEN [ret EXCEPT !.outside = TRUE] ELSE ret)
  /\ UNCHANGED <<im, hasb, lo, hi, crit, phase>>
SCrit(xr, xfin, ffin, res, i) ==
  /\ phase = "run"
  /\ crit' = [xr |-> xr, xfin |-> xfin, ffin |-> ffin, res |-> res, i |-> i]
  /\ UNCHANGED <<im, hasb, lo, hi, neval, flo, fhi, valid, ret, phase>>
SReturn(conv, xr, xfin, i) ==
  /\ phase = "run"
  /\ ret' = [ret EXCEPT !.conv = conv, !.xr = xr, !.xfin = xfin, !.i = i]
  /\ phase' = "returned"
  /\ UNCHANGED <<im, hasb, lo, hi, neval, flo, fhi, valid, crit>>
\* ---- C09 ----
\* convergence is reported only for a finite root, with a finite function value, accepted by the user criterion
SoundConvergence == (phase = "returned" /\ ret.conv) =>
                       (ret.xfin /\ crit.res /\ crit.xr = ret.xr /\ crit.ffin /\ crit.xfin)
\* never more iterations than allowed; the functor is called at most 3 + 2 im times
Budget == /\ (phase = "returned" => ret.i <= im)
          /\ (phase # "idle" => neval <= 3 + 2 * im)
\* with a valid supplied bracket no later estimate leaves it
Confined == ~ret.outside
=============================================================================

----------------------------- MODULE IntegrationGen -----------------------------
EXTENDS IntegrationExact, Json, IOUtils, SequencesExt, FiniteSets
Bounds == {-1, 0, 1, 2}
Quad == {[kind |-> "quad", k |-> k, a |-> a, b |-> b, den |-> k + 1] : k \in 0..22, a \in Bounds, b \in Bounds}
\* half-infinite intervals, both orders of the bounds, finite bound on both sides of 0
HalfInf == {[kind |-> "halfinf", side |-> sd, m |-> m, a |-> a, swapped |-> w, k |-> m, den |-> HalfInfiniteDen(sd, m, a)] :
              sd \in {"up", "down"}, m \in {2, 3, 4}, a \in -2..2, w \in {0, 1}}
Order(s) == IF s = "RK2" THEN 2 ELSE IF s = "RK4" THEN 4 ELSE IF s = "RK42" THEN 4 ELSE 5
Fixed == {[kind |-> "rkfixed", scheme |-> s, k |-> k, ti |-> i[1], tf |-> i[2], m |-> m, den |-> k + 1] :
            s \in {"RK2", "RK4"}, k \in 0..3, i \in {<<0, 1>>, <<0, 4>>, <<-1, 2>>}, m \in 0..4}
Adaptive == {[kind |-> "rkadaptive", scheme |-> s, k |-> k, ti |-> i[1], tf |-> i[2], j |-> j, den |-> k + 1] :
            s \in {"RK42", "RK54"}, k \in 0..4, i \in {<<0, 1>>, <<0, 4>>, <<-1, 2>>, <<1, 2>>, <<3, 5>>, <<-3, -1>>}, j \in 1..24}
Cases == Quad \cup HalfInf \cup {c \in Fixed \cup Adaptive : c.k < Order(c.scheme)}
Number(S) == LET s == SetToSeq(S) IN [i \in 1..Len(s) |-> [id |-> i] @@ s[i]]
ASSUME ndJsonSerialize(IOEnv.OUT, Number(Cases))
ASSUME PrintT(<<"GEN", Cardinality(Cases)>>)
=============================================================================

---------------------------- MODULE IntegrationExact ----------------------------
(* C12 (a): exact integrals of monomials, the oracle of the quadrature and Runge-Kutta exactness obligations *)
EXTENDS Rat, Integers
RECURSIVE IPow(_, _)
IPow(b, k) == IF k = 0 THEN 1 ELSE b * IPow(b, k - 1)
MonomialIntegral(k, a, b) == RNorm(IPow(b, k + 1) - IPow(a, k + 1), k + 1)
=============================================================================

---------------------------- MODULE IntegrationExact ----------------------------
(* C12 (a): exact integrals of monomials, the oracle of the quadrature and Runge-Kutta exactness obligations *)
EXTENDS Rat, Integers
RECURSIVE IPow(_, _)
IPow(b, k) == IF k = 0 THEN 1 ELSE b * IPow(b, k - 1)
MonomialIntegral(k, a, b) == RNorm(IPow(b, k + 1) - IPow(a, k + 1), k + 1)
(* half-infinite intervals (C12): integrands with a rational integral,
     up:    f(x) = 1 / (x + 3)^m  on [a, +inf),   a > -3:   1 / ((m - 1) (a + 3)^(m - 1))
     down:  f(x) = 1 / (3 - x)^m  on (-inf, a],   a <  3:   1 / ((m - 1) (3 - a)^(m - 1))
   and minus that when the bounds are given in the other order *)
HalfInfiniteDen(side, m, a) == (m - 1) * IPow(IF side = "up" THEN a + 3 ELSE 3 - a, m - 1)
HalfInfiniteIntegral(side, m, a, swapped) == RNorm(IF swapped = 1 THEN -1 ELSE 1, HalfInfiniteDen(side, m, a))
=============================================================================

------------------------------ MODULE QuantityGen ------------------------------
(* GEN for C20: programs (expression trees over three typed variables), enumerated from the typing
   rules of Quantity.tla.  Each case carries the tree e, the variables env (storage kind, unit, and the
   library's name of the unit when it has one, for the C++ spelling), the values vals of the variables
   (rationals with a power-of-two denominator), and K = the denominator of the exact value of the
   program (0 when the specification does not compute it), used by the harness as the integer scaling
   of the EXACT abstraction.  The expected type / value are NOT part of the case: the judge recomputes them. *)
EXTENDS Quantity, TLC, Json, IOUtils, SequencesExt
Thorough == IOEnv.TIER = "thorough"
L == NamedUnit("Length")
T == NamedUnit("Time")
V(q, u) == [q |-> q, u |-> u, name |-> NameOf(u), spell |-> "canon"]
RawV == [q |-> "raw", u |-> NoUnit, name |-> "", spell |-> "canon"]
Named(S) == {V("qt", NamedUnit(n)) : n \in S}
Area == UPow(L, 2, 1)
SqrtLength == UPow(L, 1, 2)
Toughness == UMul(NamedUnit("Stress"), SqrtLength)         \* MPa.sqrt(m): the fractional unit of the documentation
\* depth 1: the full lattice
Vars1 == {RawV} \cup Named({"NoUnit", "Length", "Time", "Speed", "Stress"}) \cup (IF Thorough THEN Named({"Mass"}) ELSE {})
         \cup {V("qt", Area), V("qt", SqrtLength), V("qt", Toughness)}
         \cup (IF Thorough THEN Named({"Frequency", "Force", "Energy", "Acceleration", "Density", "Temperature", "InvLength", "StressRate"})
                                \cup {V("qt", UPow(L, 3, 2)), V("qt", UPow(T, -1, 2)), V("qt", UPow(L, -2, 1))} ELSE {})
\* the seven base units one by one and two units mixing all of them: products, quotients, powers and roots must treat every
\* exponent alike (the other variables only use mass, length and time)
AllSeven == {V("qt", NamedUnit(n)) : n \in {"Mass", "Ampere", "Temperature", "Candela", "Mole"}}
            \cup {V("qt", U7(1, -1, 2, -2, 3, 1, 2)), V("qt", U7(0, 0, 0, 0, 0, 2, -1))}
\* depth 2: a sub-lattice closed enough to produce coincidences (Length/Time = Speed, Speed*Time = Length, sqrt(Area) = Length ...)
Vars2 == {RawV} \cup Named({"NoUnit", "Length", "Time", "Speed"})
         \cup (IF Thorough THEN {V("qt", SqrtLength), V("qt", Area)} \cup Named({"Frequency"}) ELSE {})
Vars2p == Vars2 \cup {V("qt", Area), V("qt", SqrtLength)}
\* views
VarsV == Named({"NoUnit", "Length", "Time"}) \cup (IF Thorough THEN Named({"Speed"}) ELSE {})
AsView(v, q) == [v EXCEPT !.q = q]
Unused == RawV
V0 == << <<16, 1>>, <<4, 1>>, <<2, 1>> >>
Vals == IF Thorough THEN {V0, << <<-9, 1>>, <<3, 1>>, <<1, 2>> >>} ELSE {V0}
ValsCmp == {V0, << <<-9, 1>>, <<-9, 1>>, <<1, 1>> >>}
Exps == {<<2, 1>>, <<1, 2>>, <<-1, 1>>, <<3, 2>>, <<2, 4>>} \cup (IF Thorough THEN {<<0, 1>>, <<-1, 2>>, <<3, 1>>, <<1, 3>>, <<-2, 3>>, <<4, 2>>} ELSE {})
Exps1 == Exps \cup {<<0, 1>>, <<-1, 2>>}
x == Leaf(1)
y == Leaf(2)
z == Leaf(3)
Case(kind, e, env, vals) == [kind |-> kind, e |-> e, env |-> env, vals |-> vals, K |-> ValOf(e, vals)[2]]
\* ---- depth 1 ----
Bin1 == {Case("bin1", Bin(op, x, y), <<a, b, Unused>>, vs) :
           op \in ArithOps \cup (CmpOps \ {"<", "=="}), a \in Vars1, b \in Vars1, vs \in (IF Thorough THEN ValsCmp ELSE {V0})}
        \cup {Case("bin1", Bin(op, x, y), <<a, b, Unused>>, vs) : op \in {"<", "=="}, a \in Vars1, b \in Vars1, vs \in ValsCmp}
\* assignment-like operations: the left-hand side is a mutable quantity (compound assignment to a raw number
\* from a dimensionless quantity is outside the statement)
Asg1 == {Case("asg1", Bin(op, x, y), <<a, b, Unused>>, V0) : op \in AssignOps \cup ScaleOps, a \in Vars1 \ {RawV}, b \in Vars1}
        \cup {Case("asg1", Bin("=", x, y), <<RawV, b, Unused>>, V0) : b \in Vars1}
Init1 == {Case("init1", Init(1, y), <<a, b, Unused>>, V0) : a \in Vars1, b \in Vars1}
Una1 == {Case("una1", Una(op, x), <<a, Unused, Unused>>, << v, <<1, 1>>, <<1, 1>> >>) :
           op \in {"neg", "abs", "sqrt"}, a \in Vars1, v \in {<<16, 1>>, <<-9, 1>>}}
        \cup {Case("una1", Pow(p[1], p[2], x), <<a, Unused, Unused>>, << v, <<1, 1>>, <<1, 1>> >>) :
                p \in Exps1, a \in Vars1, v \in {<<16, 1>>, <<1, 4>>}}
        \cup {Case("una1", Pow(p[1], p[2], x), <<a, Unused, Unused>>, << <<16, 1>>, <<1, 1>>, <<1, 1>> >>) : p \in {<<2, 1>>, <<1, 2>>, <<-1, 1>>, <<3, 2>>}, a \in AllSeven}
        \cup {Case("una1", Una("sqrt", x), <<a, Unused, Unused>>, << <<16, 1>>, <<1, 1>>, <<1, 1>> >>) : a \in AllSeven}
        \cup {Case("bin1", Bin(op, x, y), <<a, b, Unused>>, V0) : op \in {"*", "/", "+", "<"}, a \in AllSeven, b \in AllSeven}
        \* a power of such a unit used with the unit it must have, and with a unit differing in one exponent only
        \cup {Case("powout2", Bin("+", Pow(2, 1, x), y), <<a, b, Unused>>, V0) : a \in AllSeven, b \in {V("qt", UPow(c.u, 2, 1)) : c \in AllSeven} \cup {V("qt", NoUnit)}}
\* views: qt_ref on the left of assignments, const_qt_ref anywhere on the right
OpsV == {"+", "/", "<", "=", "+=", "*="} \cup (IF Thorough THEN {"*", "==", "-=", "/=", ">="} ELSE {})
View1 == {Case("view1", Bin(op, x, y), <<AsView(a, qq[1]), AsView(b, qq[2]), Unused>>, V0) :
            op \in OpsV, a \in VarsV, b \in VarsV, qq \in ({"qt", "ref"} \X {"qt", "ref", "cref"}) \ {<<"qt", "qt">>}}
         \cup {Case("view1", Bin(op, x, y), <<AsView(a, "cref"), AsView(b, "qt"), Unused>>, V0) : op \in {"+", "*", "<"}, a \in VarsV, b \in VarsV}
         \cup {Case("view1", Init(1, y), <<a, AsView(b, qb), Unused>>, V0) : a \in VarsV \cup {RawV}, b \in VarsV, qb \in {"ref", "cref"}}
\* other spellings of a unit type: the library canonicalises the unit types it computes (its own name, else StandardUnit<...>,
\* else Unit<...>); a variable declared with another spelling of the same exponents has the same unit
Spell1 == {Case("spell1", Bin(op, x, y), <<a, [b EXCEPT !.spell = sp], Unused>>, V0) :
            op \in {"+", "<", "==", "=", "+=", "*", "/"}, a \in Named({"Length", "Stress"}) \cup {V("qt", Area)},
            b \in Named({"Length", "Stress"}) \cup {V("qt", Area)}, sp \in {"unit14", "standard"}}
          \cup {Case("spell1", Init(1, y), <<a, [b EXCEPT !.spell = sp], Unused>>, V0) :
            a \in Named({"Length", "Stress"}) \cup {V("qt", Area)}, b \in Named({"Length", "Stress"}) \cup {V("qt", Area)}, sp \in {"unit14", "standard"}}
\* ---- depth 2 ----
O1 == {"*", "/", "+"}
O2L == {"+", "<"} \cup (IF Thorough THEN {"-", "*", "/", "=="} ELSE {})
O2R == {"=", "*="} \cup (IF Thorough THEN {"-", "/", ">=", "+="} ELSE {})
Left2 == {Case("left2", Bin(o2, Bin(o1, x, y), z), <<a, b, c>>, vs) :
            o1 \in O1, o2 \in O2L, a \in Vars2, b \in Vars2, c \in Vars2, vs \in Vals}
Right2 == {c \in {Case("right2", Bin(o2, x, Bin(o1, y, z)), <<a, b, c>>, vs) :
                     o1 \in O1, o2 \in O2R, a \in Vars2, b \in Vars2, c \in Vars2, vs \in {V0}} :
             ~(c.env[1].q = "raw" /\ c.e.op \in {"+=", "*="})}
InitR2 == {Case("init2", Init(1, Bin(o1, y, z)), <<a, b, c>>, vs) :
            o1 \in (IF Thorough THEN {"*", "/"} ELSE {"/"}), a \in Vars2, b \in Vars2, c \in Vars2, vs \in Vals}
PowIn2 == {Case("powin2", Pow(p[1], p[2], Bin(o1, x, y)), <<a, b, Unused>>, vs) :
            p \in Exps, o1 \in O1, a \in Vars2, b \in Vars2, vs \in Vals}
          \cup {Case("powin2", Una("sqrt", Bin(o1, x, y)), <<a, b, Unused>>, vs) : o1 \in O1, a \in Vars2, b \in Vars2, vs \in Vals}
PowOut2 == {Case("powout2", Bin(o2, Pow(p[1], p[2], x), y), <<a, b, Unused>>, vs) :
            p \in Exps, o2 \in {"+", "<"} \cup (IF Thorough THEN {"*"} ELSE {}), a \in Vars2p, b \in Vars2, vs \in Vals}
           \cup {Case("powout2", Bin(o2, y, Pow(p[1], p[2], x)), <<a, b, Unused>>, vs) :
            p \in Exps, o2 \in {"="} \cup (IF Thorough THEN {"/"} ELSE {}), a \in Vars2p, b \in Vars2, vs \in Vals}
           \cup {Case("powout2", Bin(o2, Una("sqrt", x), y), <<a, b, Unused>>, vs) : o2 \in {"+", "*", "<"}, a \in Vars2p, b \in Vars2, vs \in Vals}
\* norm-like programs of the documentation: power<1,2>(x*x + y*y) compared with z
Norm2 == {Case("norm2", Bin("<=", Pow(1, 2, Bin("+", Bin("*", x, x), Bin("*", y, y))), z), <<a, b, c>>, << <<3, 1>>, <<4, 1>>, <<5, 1>> >>) :
            a \in Vars2, b \in Vars2, c \in Vars2}
Seqs == <<SetToSeq(Bin1), SetToSeq(Asg1), SetToSeq(Init1), SetToSeq(Una1), SetToSeq(View1), SetToSeq(Spell1), SetToSeq(Left2), SetToSeq(Right2),
          SetToSeq(InitR2), SetToSeq(PowIn2), SetToSeq(PowOut2), SetToSeq(Norm2)>>
\* square_root / power are library functions of quantities: programs applying square_root to a raw number are not generated
RECURSIVE RawSqrt(_, _)
RawSqrt(e, env) == \/ (e.k = "una" /\ e.op = "sqrt" /\ TypeOf(e.kids[1], env).q = "raw")
                   \/ \E i \in 1..Len(e.kids) : RawSqrt(e.kids[i], env)
All == SelectSeq(FlattenSeq(Seqs), LAMBDA c : ~RawSqrt(c.e, c.env))
\* the catalogue of named units is observed too (one case per name)
Cat == [i \in 1..Len(Catalogue) |-> [kind |-> "catalogue", e |-> x, env |-> <<[V("qt", Catalogue[i].u) EXCEPT !.name = Catalogue[i].name], Unused, Unused>>,
                                      vals |-> << <<1, 1>>, <<1, 1>>, <<1, 1>> >>, K |-> 1]]
Cases == Cat \o All
Numbered == [i \in 1..Len(Cases) |-> [id |-> i] @@ Cases[i]]
AllUnits == {v.u : v \in Vars1 \cup Vars2}
ASSUME CatalogueTheorems
ASSUME GroupTheorems(AllUnits \cup {Catalogue[i].u : i \in 1..Len(Catalogue)})
\* vacuity: both labels are produced for every root operation, and exact values are computed for most programs
Wd(c) == WellDimensioned(c.e, c.env)
Roots == {RootOp(All[i].e) : i \in 1..Len(All)}
ASSUME Roots = ArithOps \cup CmpOps \cup AssignOps \cup ScaleOps \cup {"init", "neg", "abs", "sqrt", "power"}
\* (products, quotients and powers of well-dimensioned operands are never ill-dimensioned)
ASSUME \A r \in {"+", "-", "init"} \cup CmpOps \cup AssignOps \cup ScaleOps : /\ \E i \in 1..Len(All) : RootOp(All[i].e) = r /\ Wd(All[i])
          /\ \E i \in 1..Len(All) : RootOp(All[i].e) = r /\ ~Wd(All[i])
ASSUME ndJsonSerialize(IOEnv.OUT, Numbered)
ASSUME PrintT(<<"GEN", Len(Cases), Cardinality({i \in 1..Len(All) : Wd(All[i])}), Cardinality({i \in 1..Len(All) : All[i].K # 0})>>)
=============================================================================

SPECIFICATION TraceSpec
INVARIANTS SoundConvergence Budget Confined
CONSTRAINT TrackMaxL
POSTCONDITION ReportMaxL
CHECK_DEADLOCK FALSE

-------------------------------- MODULE Quantity --------------------------------
(* C20 - physical quantities: dimension checking is sound and transparent (tfel::math::qt).

   A unit is a vector of 7 rational exponents (kg, m, s, A, K, cd, mol): the free abelian group
   Q^7 written additively.  A program is an expression tree over three typed variables; the
   specification gives
     - its type: a quantity of some unit, a raw floating-point number, a boolean, or "ill"
       (ill-dimensioned: the program must not compile),
     - its value on exact rationals (the same computation on the underlying numbers).
   Typing rules (docs/web/tfel-math.md, section Quantities; Quantity/qtOperations.hxx):
     + - compare assign += -= initialise : both sides of the same unit; a raw number counts as NoUnit
     * /                                : exponents are added / subtracted; a raw number is NoUnit
     power<N,D>, square_root            : exponents are multiplied by N/D (1/2)
     *= /=                              : the right-hand side must be dimensionless (the left-hand side keeps its unit)
     conversion to the base type        : only for NoUnit *)
EXTENDS Integers, Sequences, FiniteSets, Rat

\* ---- the unit group ----------------------------------------------------------------------------
Zero == <<0, 1>>
U7(a, b, c, d, e, f, g) == <<RI(a), RI(b), RI(c), RI(d), RI(e), RI(f), RI(g)>>
NoUnit == U7(0, 0, 0, 0, 0, 0, 0)
UMul(u, v) == [i \in 1..7 |-> RAdd(u[i], v[i])]
UDiv(u, v) == [i \in 1..7 |-> RSub(u[i], v[i])]
UPow(u, n, d) == [i \in 1..7 |-> RMul(u[i], RNorm(n, d))]
IsUnit(u) == /\ Len(u) = 7
             /\ \A i \in 1..7 : u[i][2] > 0 /\ RNorm(u[i][1], u[i][2]) = u[i]

\* the catalogue of named units of TFEL/Math/Forward/Unit.hxx with their SI meaning (kg, m, s, A, K, cd, mol)
Catalogue == <<
  [name |-> "NoUnit", u |-> NoUnit],
  [name |-> "Mass", u |-> U7(1, 0, 0, 0, 0, 0, 0)],
  [name |-> "Length", u |-> U7(0, 1, 0, 0, 0, 0, 0)],
  [name |-> "Time", u |-> U7(0, 0, 1, 0, 0, 0, 0)],
  [name |-> "Ampere", u |-> U7(0, 0, 0, 1, 0, 0, 0)],
  [name |-> "Temperature", u |-> U7(0, 0, 0, 0, 1, 0, 0)],
  [name |-> "Candela", u |-> U7(0, 0, 0, 0, 0, 1, 0)],
  [name |-> "Mole", u |-> U7(0, 0, 0, 0, 0, 0, 1)],
  [name |-> "InvLength", u |-> U7(0, -1, 0, 0, 0, 0, 0)],
  [name |-> "InvTemperature", u |-> U7(0, 0, 0, 0, -1, 0, 0)],
  [name |-> "Frequency", u |-> U7(0, 0, -1, 0, 0, 0, 0)],
  [name |-> "Speed", u |-> U7(0, 1, -1, 0, 0, 0, 0)],
  [name |-> "Acceleration", u |-> U7(0, 1, -2, 0, 0, 0, 0)],
  [name |-> "Momentum", u |-> U7(1, 1, -1, 0, 0, 0, 0)],
  [name |-> "Force", u |-> U7(1, 1, -2, 0, 0, 0, 0)],
  [name |-> "Stress", u |-> U7(1, -1, -2, 0, 0, 0, 0)],
  [name |-> "StressRate", u |-> U7(1, -1, -3, 0, 0, 0, 0)],
  [name |-> "Energy", u |-> U7(1, 2, -2, 0, 0, 0, 0)],
  [name |-> "Density", u |-> U7(1, -3, 0, 0, 0, 0, 0)],
  [name |-> "TemperatureGradient", u |-> U7(0, -1, 0, 0, 1, 0, 0)],
  [name |-> "ThermalConductivity", u |-> U7(1, 1, -3, 0, -1, 0, 0)],
  [name |-> "HeatFluxDensity", u |-> U7(1, 0, -3, 0, 0, 0, 0)] >>
UnitNamed(n) == (CHOOSE i \in 1..Len(Catalogue) : Catalogue[i].name = n)
NamedUnit(n) == Catalogue[UnitNamed(n)].u
\* the name of a unit ("" when the library has no name for it)
NameOf(u) == IF \E i \in 1..Len(Catalogue) : Catalogue[i].u = u
             THEN Catalogue[CHOOSE i \in 1..Len(Catalogue) : Catalogue[i].u = u].name ELSE ""
\* physical relations between the named units (the catalogue is consistent with mechanics)
CatalogueTheorems ==
  /\ \A i \in 1..Len(Catalogue) : IsUnit(Catalogue[i].u)
  /\ \A i, j \in 1..Len(Catalogue) : Catalogue[i].u = Catalogue[j].u => i = j
  /\ NamedUnit("Speed") = UDiv(NamedUnit("Length"), NamedUnit("Time"))
  /\ NamedUnit("Acceleration") = UDiv(NamedUnit("Speed"), NamedUnit("Time"))
  /\ NamedUnit("Force") = UMul(NamedUnit("Mass"), NamedUnit("Acceleration"))
  /\ NamedUnit("Momentum") = UMul(NamedUnit("Mass"), NamedUnit("Speed"))
  /\ NamedUnit("Stress") = UDiv(NamedUnit("Force"), UPow(NamedUnit("Length"), 2, 1))
  /\ NamedUnit("StressRate") = UDiv(NamedUnit("Stress"), NamedUnit("Time"))
  /\ NamedUnit("Energy") = UMul(NamedUnit("Force"), NamedUnit("Length"))
  /\ NamedUnit("Density") = UDiv(NamedUnit("Mass"), UPow(NamedUnit("Length"), 3, 1))
  /\ NamedUnit("Frequency") = UDiv(NoUnit, NamedUnit("Time"))
  /\ NamedUnit("InvLength") = UPow(NamedUnit("Length"), -1, 1)
  /\ NamedUnit("InvTemperature") = UPow(NamedUnit("Temperature"), -1, 1)
  /\ NamedUnit("TemperatureGradient") = UDiv(NamedUnit("Temperature"), NamedUnit("Length"))
  /\ NamedUnit("HeatFluxDensity") = UDiv(UDiv(NamedUnit("Energy"), NamedUnit("Time")), UPow(NamedUnit("Length"), 2, 1))
  /\ NamedUnit("ThermalConductivity") = UDiv(NamedUnit("HeatFluxDensity"), NamedUnit("TemperatureGradient"))
\* group laws, checked by TLC on a set S of units
GroupTheorems(S) ==
  /\ \A u \in S : IsUnit(u) /\ UMul(u, NoUnit) = u /\ UDiv(u, u) = NoUnit /\ UPow(u, 1, 1) = u /\ UPow(u, 0, 1) = NoUnit
  /\ \A u, v \in S : UMul(u, v) = UMul(v, u) /\ UDiv(UMul(u, v), v) = u /\ IsUnit(UMul(u, v)) /\ IsUnit(UDiv(u, v))
  /\ \A u \in S : UPow(UPow(u, 1, 2), 2, 1) = u /\ UPow(u, 2, 1) = UMul(u, u) /\ UPow(u, -1, 1) = UDiv(NoUnit, u)
                  /\ UPow(u, 2, 4) = UPow(u, 1, 2) /\ UPow(UPow(u, 3, 2), 2, 3) = u

\* ---- programs ------------------------------------------------------------------------------------
\* a node is [k, op, n, d, i, kids]:
\*   k = "leaf": variable i (1..3)
\*   k = "bin" : kids[1] op kids[2],   op in ArithOps \cup CmpOps \cup AssignOps \cup ScaleOps
\*   k = "una" : op in {"neg", "abs", "sqrt"} or "pow" with the exponent n/d
\*   k = "init": implicit conversion of kids[1] to the type of variable i
Leaf(i) == [k |-> "leaf", op |-> "", n |-> 0, d |-> 1, i |-> i, kids |-> <<>>]
Bin(op, a, b) == [k |-> "bin", op |-> op, n |-> 0, d |-> 1, i |-> 0, kids |-> <<a, b>>]
Una(op, a) == [k |-> "una", op |-> op, n |-> 0, d |-> 1, i |-> 0, kids |-> <<a>>]
Pow(n, d, a) == [k |-> "una", op |-> "pow", n |-> n, d |-> d, i |-> 0, kids |-> <<a>>]
Init(i, a) == [k |-> "init", op |-> "init", n |-> 0, d |-> 1, i |-> i, kids |-> <<a>>]
ArithOps == {"+", "-", "*", "/"}
CmpOps == {"<", "<=", ">", ">=", "==", "!="}
AssignOps == {"=", "+=", "-="}
ScaleOps == {"*=", "/="}

\* variables: [q |-> "raw" | "qt" | "ref" | "cref", u |-> unit]  (qt_ref / const_qt_ref are views: same typing rules)
\* types:     [q |-> "raw" | "qt" | "bool" | "ill", u |-> unit]
Raw == [q |-> "raw", u |-> NoUnit]
Bool == [q |-> "bool", u |-> NoUnit]
Ill == [q |-> "ill", u |-> NoUnit]
Qt(u) == [q |-> "qt", u |-> u]
VarType(v) == IF v.q = "raw" THEN Raw ELSE Qt(v.u)
Num(t) == t.q \in {"raw", "qt"}
Dimless(t) == t.q = "raw" \/ (t.q = "qt" /\ t.u = NoUnit)
SameUnit(s, t) == s.u = t.u          \* raw numbers carry NoUnit
BinType(op, s, t) ==
  IF ~(Num(s) /\ Num(t)) THEN Ill
  ELSE IF op \in {"+", "-"} THEN (IF ~SameUnit(s, t) THEN Ill ELSE IF s.q = "raw" /\ t.q = "raw" THEN Raw ELSE Qt(s.u))
  ELSE IF op = "*" THEN (IF s.q = "raw" /\ t.q = "raw" THEN Raw ELSE Qt(UMul(s.u, t.u)))
  ELSE IF op = "/" THEN (IF s.q = "raw" /\ t.q = "raw" THEN Raw ELSE Qt(UDiv(s.u, t.u)))
  ELSE IF op \in CmpOps THEN (IF SameUnit(s, t) THEN Bool ELSE Ill)
  ELSE IF op \in AssignOps THEN (IF SameUnit(s, t) THEN s ELSE Ill)
  ELSE IF op \in ScaleOps THEN (IF Dimless(t) THEN s ELSE Ill)
  ELSE Ill
UnaType(op, n, d, t) ==
  IF ~Num(t) THEN Ill
  ELSE IF op \in {"neg", "abs"} THEN t
  ELSE IF op = "pow" THEN (IF t.q = "raw" THEN Raw ELSE Qt(UPow(t.u, n, d)))
  ELSE IF op = "sqrt" THEN (IF t.q = "raw" THEN Raw ELSE Qt(UPow(t.u, 1, 2)))
  ELSE Ill
RECURSIVE TypeOf(_, _)
TypeOf(e, env) ==
  IF e.k = "leaf" THEN VarType(env[e.i])
  ELSE IF e.k = "bin" THEN BinType(e.op, TypeOf(e.kids[1], env), TypeOf(e.kids[2], env))
  ELSE IF e.k = "una" THEN UnaType(e.op, e.n, e.d, TypeOf(e.kids[1], env))
  ELSE LET t == TypeOf(e.kids[1], env) IN IF Num(t) /\ SameUnit(VarType(env[e.i]), t) THEN VarType(env[e.i]) ELSE Ill
WellDimensioned(e, env) == TypeOf(e, env).q # "ill"

\* ---- values: exact rationals <<n, d>>, d = 0 means "not exactly representable here" (division by zero,
\*      root that is not a perfect power); the transparency obligation is then judged on the bitwise
\*      comparison with the plain floating-point computation only
Undef == <<0, 0>>
Def(v) == v[2] # 0
RECURSIVE IPow(_, _)
IPow(b, n) == IF n = 0 THEN 1 ELSE b * IPow(b, n - 1)
HasRoot(m, d) == m <= 4096 /\ \E r \in 0..64 : IPow(r, d) = m
IRoot(m, d) == CHOOSE r \in 0..64 : IPow(r, d) = m
\* v^(n/d) for v = <<a, b>> > 0 (or any v when d = 1)
RPow(v, n0, d0) ==
  LET e == RNorm(n0, d0)
      n == e[1]
      d == e[2]
      an == AbsI(n)
  IN  IF n = 0 THEN <<1, 1>>
      ELSE IF v[1] = 0 THEN (IF n > 0 THEN <<0, 1>> ELSE Undef)
      ELSE IF d = 1 THEN (IF an > 4 \/ AbsI(v[1]) > 64 \/ v[2] > 64 THEN Undef
                          ELSE IF n > 0 THEN RNorm(IPow(v[1], an), IPow(v[2], an)) ELSE RNorm(IPow(v[2], an), IPow(v[1], an)))
      ELSE IF v[1] < 0 \/ an > 4 \/ ~HasRoot(v[1], d) \/ ~HasRoot(v[2], d) THEN Undef
      ELSE LET rn == IRoot(v[1], d)
               rd == IRoot(v[2], d)
           IN  IF rn > 16 \/ rd > 16 THEN Undef
               ELSE IF n > 0 THEN RNorm(IPow(rn, an), IPow(rd, an)) ELSE RNorm(IPow(rd, an), IPow(rn, an))
B2R(b) == IF b THEN <<1, 1>> ELSE <<0, 1>>
BinVal(op, a, b) ==
  IF ~Def(a) \/ ~Def(b) THEN Undef
  ELSE IF op \in {"+", "+="} THEN RAdd(a, b)
  ELSE IF op \in {"-", "-="} THEN RSub(a, b)
  ELSE IF op \in {"*", "*="} THEN RMul(a, b)
  ELSE IF op \in {"/", "/="} THEN (IF b[1] = 0 THEN Undef ELSE RDiv(a, b))
  ELSE IF op = "=" THEN b
  ELSE IF op = "<" THEN B2R(RLt(a, b))
  ELSE IF op = "<=" THEN B2R(RLe(a, b))
  ELSE IF op = ">" THEN B2R(RLt(b, a))
  ELSE IF op = ">=" THEN B2R(RLe(b, a))
  ELSE IF op = "==" THEN B2R(a = b)
  ELSE B2R(a # b)
RECURSIVE ValOf(_, _)
ValOf(e, vals) ==
  IF e.k = "leaf" THEN vals[e.i]
  ELSE IF e.k = "bin" THEN BinVal(e.op, ValOf(e.kids[1], vals), ValOf(e.kids[2], vals))
  ELSE IF e.k = "init" THEN ValOf(e.kids[1], vals)
  ELSE LET a == ValOf(e.kids[1], vals)
       IN  IF ~Def(a) THEN Undef
           ELSE IF e.op = "neg" THEN RNeg(a)
           ELSE IF e.op = "abs" THEN (IF a[1] < 0 THEN RNeg(a) ELSE a)
           ELSE IF e.op = "sqrt" THEN RPow(a, 1, 2)
           ELSE RPow(a, e.n, e.d)
RootOp(e) == IF e.k = "leaf" THEN "leaf" ELSE IF e.k = "una" /\ e.op = "pow" THEN "power" ELSE e.op
=============================================================================

---------------------------- MODULE IsoFunctionGen ----------------------------
(* GEN for C05.  Case fields (harness/isotropic.cxx):
     n, a, k (tensor 2^k a), ev, nn, cols (known decomposition), l,
     path   : "static" (static API fed with the exact decomposition), "member" (member functions through the
              eigen-solver `solver`; api = "separate" | "and" selects computeIsotropicFunctionAndDerivative),
              "named" (logarithm, absolute_value, positive_part, negative_part, square_root, and the
              positive / negative decomposition with derivatives)
     f      : scalar function;  oracle = "spec": expF / expDF are the exact integer answers computed here (expF times
              fmul, scaled by 2^(k deg) and 2^(k (deg-1))); oracle = "harness": transcendental f (exp, log) or
              derivative of the positive part: the reference is the Daleckii - Krein formula evaluated in long double
              on the known decomposition
     eps2, epsk : eps = eps2 . 2^epsk . 2^k  *)
EXTENDS IsoFunction, TLC, Json, IOUtils, SequencesExt
Thorough == IOEnv.TIER = "thorough"
S4 == {-1, 0, 1, 2}
SmallL == IF Thorough THEN Cube(S4) \cup Cube({-2, 1, 3}) ELSE Cube(S4)
Rots(n) == IF n = 3 THEN (IF Thorough THEN {r \in Rot3All : r.n <= 25} ELSE Rot3Quick)
           ELSE IF n = 2 THEN (IF Thorough THEN RotZAll ELSE RotZQuick) ELSE {R(1, Id3)}
MemberRots(n) == IF n = 3 THEN {R(1, Id3), R(5, Px), R(3, Q3), R(7, Q7), R(25, Mul(Px, Pz))} \cup (IF Thorough THEN Rot3Quick ELSE {})
                 ELSE IF n = 2 THEN {R(1, Id3), R(5, Pz)} \cup (IF Thorough THEN {R(13, Pz13), R(1, Cz)} ELSE {}) ELSE {R(1, Id3)}
\* one record constructor (records are built in one go: merging records with @@ is an order of magnitude slower in TLC)
Mk(n, r, l, a, path, f, solver, api, k, eps2, epsk, oracle, fmul, expF, expNF, expDF, smooth) ==
  [n |-> n, a |-> a, ev |-> EigenOf(r.n, l), nn |-> r.n, cols |-> RowMajor(r.M), l |-> l,
   path |-> path, f |-> f, solver |-> solver, api |-> api, k |-> k, eps2 |-> eps2, epsk |-> epsk, deg |-> Deg(f),
   oracle |-> oracle, fmul |-> fmul, expF |-> expF, expNF |-> expNF, expDF |-> expDF, smooth |-> smooth]
A6(r, l) == CompOf(TensorOf(r.M, l))
NoExp == <<>>
NormOr1(E) == IF Norm(E) = 0 THEN 1 ELSE Norm(E)
\* the cube needs n^4 . n^2 . |l|^3 below 2^31
CubeOk(r, f) == f # "cube" \/ r.n <= 15
\* exact answers, computed once per (n, rotation, spectrum, function): <<n, r, l, f, a, expF, expDF>>
PolyBase(n, Rs, Ls, Fs, withF) == {<<n, q[1], q[2], q[3], A6(q[1], q[2]), IF withF THEN ExpF(q[3], q[1], q[2]) ELSE NoExp, ExpDF(q[3], q[1], q[2], n)>> :
                              q \in {x \in Rs \X Ls \X Fs : CubeOk(x[1], x[3])}}
\* ---- static API, exact decomposition, distinct and exactly repeated eigenvalues; eps = half a unit ----
StaticBase == UNION {PolyBase(n, Rots(n), SmallL, PolyFns, TRUE) : n \in 1..3}
StaticCases == {Mk(b[1], b[2], b[3], b[5], "static", b[4], "none", p[1], p[2], 1, -1, "spec", 1, b[6], NoExp, b[7], TRUE) :
                  b \in StaticBase, p \in {"fn", "val"} \X {0}}
               \cup {Mk(b[1], b[2], b[3], b[5], "static", b[4], "none", p[1], p[2], 1, -1, "spec", 1, b[6], NoExp, b[7], TRUE) :
                  b \in {x \in StaticBase : x[4] \in {"square", "cube"} /\ x[2].n = 5}, p \in {"fn", "val"} \X {20, -20}}
\* ---- nearly coincident eigenvalues: gap = one unit n^2, eps = gap / 2 (general branch), = gap (boundary), = 2 gap ----
NearL == {<<1024, 1025, 3>>, <<3, 1024, 1025>>, <<1025, 3, 1024>>, <<1024, 1025, -1024>>, <<-1024, -1025, 7>>}
NearRots(n) == IF n = 3 THEN {R(1, Id3), R(1, C111), R(3, Q3)} \cup (IF Thorough THEN {R(3, Q3b), R(1, Cz)} ELSE {})
               ELSE IF n = 2 THEN {R(1, Id3), R(1, Cz)} ELSE {}
NearBase == UNION {PolyBase(n, NearRots(n), IF n = 2 THEN {<<1024, 1025, 3>>, <<1025, 1024, 1024>>, <<-1024, -1025, 7>>} ELSE NearL,
                            {"square", "cube"}, FALSE) : n \in 2..3}
NearCases == {Mk(b[1], b[2], b[3], b[5], "static", b[4], "none", api, 0, e * b[2].n * b[2].n, -1, "spec", 1, NoExp, NoExp, b[7], TRUE) :
                b \in NearBase, api \in {"fn", "val"}, e \in {1, 2, 4}}
\* ---- member functions through an eigen-solver; eps = norm 2^-40 (regularised general branch) or norm 2^-12 ----
MemberSolvers == {"TFELEIGENSOLVER", "FSESJACOBIEIGENSOLVER", "GTESYMMETRICQREIGENSOLVER"}
MemberBase == UNION {PolyBase(n, MemberRots(n), SmallL, {"affine", "square", "cube"}, TRUE) : n \in 1..3}
MemberCases == {Mk(b[1], b[2], b[3], b[5], "member", b[4], s, ae[1], 0, NormOr1(EigenOf(b[2].n, b[3])), ae[2], "spec", 1, b[6], NoExp, b[7], TRUE) :
                  b \in MemberBase, s \in MemberSolvers,
                  ae \in (IF Thorough THEN {"separate", "and"} \X {-40, -12} ELSE {<<"separate", -40>>, <<"and", -12>>})}
\* transcendental functions (harness oracle): exp(x / n^2) on every small spectrum, log(x / n^2) on positive ones
PosL == Cube({1, 2, 3})
H(n, r, l, path, f, solver, api, eps2, epsk) == Mk(n, r, l, A6(r, l), path, f, solver, api, 0, eps2, epsk, "harness", 1, NoExp, NoExp, NoExp, TRUE)
TransCases ==
  UNION {{H(n, r, l, "member", "exp", s, "and", NormOr1(EigenOf(r.n, l)), -12) : r \in MemberRots(n), l \in SmallL, s \in MemberSolvers} : n \in 1..3}
  \cup UNION {{H(n, r, l, "member", "log", s, "separate", NormOr1(EigenOf(r.n, l)), -12) : r \in MemberRots(n), l \in PosL, s \in MemberSolvers} : n \in 1..3}
  \cup UNION {{H(n, r, l, "static", "exp", "none", api, 1, -1) : r \in MemberRots(n), l \in SmallL, api \in {"fn", "val"}} : n \in 1..3}
\* ---- named functions (default solver inside) ----
\* square_root: strictly positive perfect squares (with an exactly null eigenvalue the computed one may be -1e-17
\* and its square root is not a number: the boundary of the domain is not part of the lattice)
SquareL == Cube({1, 4, 9})
\* all negative spectra as well (every sign pattern of three distinct eigenvalues in every position)
NegL == Cube({-3, -2, -1})
T == "TFELEIGENSOLVER"
NamedCases ==
  UNION {{Mk(n, r, l, A6(r, l), "named", f, T, "fn", 0, NormOr1(EigenOf(r.n, l)), -12, "spec", 1, ExpF(f, r, l), NoExp, NoExp, TRUE) :
            r \in MemberRots(n), l \in SmallL \cup NegL, f \in {"abs", "pos", "neg"}} : n \in 1..3}
  \cup UNION {{Mk(n, r, l, A6(r, l), "named", "sqrt", T, "fn", 0, 1, -12, "spec", r.n, CompOf(SqrtTensorTimesN(r, l)), NoExp, NoExp, TRUE) :
            r \in MemberRots(n), l \in SquareL} : n \in 1..3}
  \cup UNION {{H(n, r, l, "named", "ln", T, "fn", 1, -12) : r \in MemberRots(n), l \in PosL} : n \in 1..3}
  \* decomposition in positive and negative parts with derivatives: values exact, derivatives of the positive and of the
  \* negative part against the harness reference when no eigenvalue is zero (max(x,0) is not differentiable at 0)
  \cup UNION {{Mk(n, r, l, A6(r, l), "named", "parts", T, "fn", 0, NormOr1(EigenOf(r.n, l)), -12, "parts", 1,
                  ExpF("pos", r, l), ExpF("neg", r, l), NoExp, l[1] # 0 /\ l[2] # 0 /\ l[3] # 0) :
            r \in MemberRots(n), l \in SmallL \cup NegL} : n \in 1..3}
Cases == StaticCases \cup NearCases \cup MemberCases \cup TransCases \cup NamedCases
Number(S) == LET s == SetToSeq(S) IN [i \in 1..Len(s) |-> [id |-> i] @@ s[i]]
ASSUME SpecTheorems(TRUE)
ASSUME PolyTheorems(TRUE)
\* assumption of RegApplies for eps = norm 2^-40 and 2^-12: the small spectra are separated by more than norm / 2^10
ASSUME \A l \in SmallL \cup PosL \cup SquareL \cup NegL : \A i, j \in 1..3 : l[i] # l[j] => Abs_(l[i] - l[j]) * 1024 > Norm(l)
\* boundary cases present: exactly repeated, nearly coincident on both sides of eps and on eps
ASSUME /\ \E c \in StaticCases : c.l[1] = c.l[2] /\ c.l[2] # c.l[3] /\ c.n = 3 /\ c.a[4] # 0
       /\ \E c \in StaticCases : c.l[1] = c.l[2] /\ c.l[2] = c.l[3] /\ c.l[1] # 0
       /\ \E c \in NearCases : RegApplies(c.ev, c.eps2, c.epsk) /\ \E c2 \in NearCases : ~RegApplies(c2.ev, c2.eps2, c2.epsk)
       /\ \E c \in NearCases : \E i, j \in 1..3 : 2 * Abs_(c.ev[i] - c.ev[j]) = c.eps2
       /\ \A c \in StaticCases \cup MemberCases : ~RegApplies(c.ev, c.eps2, c.epsk)
ASSUME ndJsonSerialize(IOEnv.OUT, Number(Cases))
ASSUME PrintT(<<"GEN", Cardinality(StaticCases), Cardinality(NearCases), Cardinality(MemberCases), Cardinality(TransCases), Cardinality(NamedCases)>>)
=============================================================================

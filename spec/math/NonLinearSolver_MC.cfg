SPECIFICATION FairSpec
CONSTANTS
  IterMax = 6
INVARIANTS IterBound SoundSuccess
PROPERTY Terminates

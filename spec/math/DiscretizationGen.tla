---------------------------- MODULE DiscretizationGen ----------------------------
EXTENDS Discretization, TLC, Json, IOUtils, SequencesExt
Cases == {[xb |-> i[1], xe |-> i[2], n |-> n, mode |-> "near", s |-> sk[1], k |-> sk[2], db |-> 1, de |-> 1] :
             i \in Intervals, n \in Ns, sk \in NearOne}
         \cup {[xb |-> i[1], xe |-> i[2], n |-> n, mode |-> "far", s |-> 0, k |-> 0, db |-> d[1], de |-> d[2]] :
             i \in Intervals, n \in Ns \ {100000}, d \in Far}
Number(S) == LET s == SetToSeq(S) IN [i \in 1..Len(s) |-> [id |-> i] @@ s[i]]
ASSUME ndJsonSerialize(IOEnv.OUT, Number(Cases))
ASSUME PrintT(<<"GEN", Cardinality(Cases)>>)
=============================================================================

--------------------------- MODULE DerivativesGen ---------------------------
(* GEN for C06: explicit lattices of operands for every derivative helper, written as ndjson for the harness.
   TIER = "quick" | "thorough" (environment).
   Every entry of the exact Jacobians is a polynomial of degree <= 3 of the operand components, so the lattices are:
   "generic" dense operands with pairwise distinct components of both signs (any confusion of indices, signs or
   coefficients changes some entry), every operand with at most two (thorough: three) non-zero components
   (each monomial in isolation, zero patterns), and for the second operands a basis plus a generic one
   (the Jacobians are linear in them).  Deformation gradients are restricted to det > 0. *)
EXTENDS Derivatives, TLC, Json, IOUtils, SequencesExt
Thorough == IOEnv.TIER = "thorough"
V == IF Thorough THEN {-2, -1, 1, 2} ELSE {-1, 2}

\* ---- component lists ----------------------------------------------------------------------------------------------
Z6 == <<0, 0, 0, 0, 0, 0>>
Z9 == <<0, 0, 0, 0, 0, 0, 0, 0, 0>>
Sparse(z, np, maxnz) ==
  {z} \cup {[z EXCEPT ![p] = v] : p \in 1..np, v \in V}
      \cup (IF maxnz >= 2 THEN {[z EXCEPT ![p] = v, ![q] = u] : p \in 1..np, q \in 1..np, v \in V, u \in V} ELSE {})
      \cup (IF maxnz >= 3 THEN {[z EXCEPT ![p] = v, ![q] = u, ![r] = t] : p \in 1..np, q \in 1..np, r \in 1..np, v \in V, u \in V, t \in V}
            ELSE {})
Embed9(n, c) == IF n = 1 THEN <<c[1], c[2], c[3], 0, 0, 0, 0, 0, 0>>
                ELSE IF n = 2 THEN <<c[1], c[2], c[3], c[4], c[5], 0, 0, 0, 0>> ELSE c
MaxNz == IF Thorough THEN 3 ELSE 2
Dense(z, np) == IF np = 3 THEN {[z EXCEPT ![1] = a, ![2] = b, ![3] = c] : a \in -2..2, b \in -2..2, c \in -2..2}
                ELSE IF np = 4 THEN {[z EXCEPT ![1] = a, ![2] = b, ![3] = c, ![4] = d] : a \in -1..1, b \in -1..1, c \in -1..1, d \in -1..1}
                ELSE IF np = 5 THEN {[z EXCEPT ![1] = a, ![2] = b, ![3] = c, ![4] = d, ![5] = e] : a \in -1..1, b \in -1..1, c \in -1..1, d \in -1..1, e \in -1..1}
                ELSE IF np = 6 THEN {[z EXCEPT ![1] = a, ![2] = b, ![3] = c, ![4] = d, ![5] = e, ![6] = f] :
                                        a \in -1..1, b \in -1..1, c \in -1..1, d \in -1..1, e \in -1..1, f \in -1..1}
                ELSE {}
\* symmetric operands
GenSym(n)  == {SymOf(Embed(n, c)) : c \in {<<2, -3, 5, 1, -4, 7>>, <<1, 2, 3, 4, 5, 6>>}}
XS(n)      == GenSym(n) \cup {SymOf(c) : c \in Sparse(Z6, NSym(n), MaxNz) \cup (IF Thorough THEN Dense(Z6, NSym(n)) ELSE {})}
XS1(n)     == GenSym(n) \cup {SymOf(c) : c \in Sparse(Z6, NSym(n), 1)}
ElemSym(n) == {SymOf([Z6 EXCEPT ![p] = 1]) : p \in 1..NSym(n)}
BS(n)      == GenSym(n) \cup ElemSym(n)
\* general operands
GenFullC   == {<<2, -3, 5, 1, -4, 7, -6, 8, -9>>, <<1, 2, 3, 4, 5, 6, 7, 8, 9>>, <<-2, -3, 5, 1, 4, 7, -6, 8, -9>>, <<3, 2, 1, -1, 1, 2, -2, 1, -1>>}
GenFull(n) == {FullOf(Embed9(n, c)) : c \in GenFullC}
XF(n)      == GenFull(n) \cup {FullOf(c) : c \in Sparse(Z9, NFull(n), MaxNz) \cup (IF Thorough THEN Dense(Z9, NFull(n)) ELSE {})}
XF1(n)     == GenFull(n) \cup {FullOf(c) : c \in Sparse(Z9, NFull(n), 1)}
\* deformation gradients: generic ones and Id + sparse (elementary shears, stretches, their products), det > 0
PosF(n)    == {M \in GenFull(n) \cup {Add(Id3, FullOf(c)) : c \in Sparse(Z9, NFull(n), 2)} : Det(M) > 0}
\* for the stress functions: quick = generic + Id + one component in {2} (shears of amount 2, stretches 3),
\* thorough = generic + Id + at most two components in {-1, 2}
PosF1(n)   == {M \in GenFull(n) \cup (IF Thorough THEN {Add(Id3, FullOf([Z9 EXCEPT ![p] = v, ![q] = u])) : p \in 1..NFull(n), q \in 1..NFull(n), v \in {-1, 2}, u \in {-1, 2}}
                                       ELSE {Add(Id3, FullOf([Z9 EXCEPT ![p] = 2])) : p \in 1..NFull(n)}) \cup {Id3} : Det(M) > 0}

\* ---- inner derivatives of the chain-rule variants (natural matrices of linear maps defined on matrices) ----------------
G1(n) == SymOf(Embed(n, <<2, -3, 5, 1, -4, 7>>))
H1(n) == FullOf(Embed9(n, <<1, -2, 3, 2, -1, 1, 3, -3, 2>>))
LSS(n) == {NatMat(LAMBDA Y : Y, TRUE, "sym", n),
           NatMat(LAMBDA Y : Dev3(Y), TRUE, "sym", n),
           NatMat(LAMBDA Y : Add(Mul(G1(n), Y), Mul(Y, G1(n))), TRUE, "sym", n),
           NatMat(LAMBDA Y : Mul(G1(n), Mul(Y, G1(n))), TRUE, "sym", n)}
LFF(n) == {NatMat(LAMBDA Y : Y, FALSE, "full", n),
           NatMat(LAMBDA Y : Transpose(Y), FALSE, "full", n),
           NatMat(LAMBDA Y : Mul(H1(n), Y), FALSE, "full", n),
           NatMat(LAMBDA Y : Add(Mul(Y, H1(n)), Scale(2, Transpose(Y))), FALSE, "full", n)}
LFS(n) == {NatMat(LAMBDA Y : Zero3, FALSE, "sym", n),
           NatMat(LAMBDA Y : Sym2(Y), FALSE, "sym", n),
           NatMat(LAMBDA Y : Sym2(Mul(H1(n), Y)), FALSE, "sym", n),
           NatMat(LAMBDA Y : Sym2(Mul(Transpose(Y), H1(n))), FALSE, "sym", n)}
Twice(L) == [d \in 1..Len(L) |-> [q \in 1..Len(L[d]) |-> 2 * L[d][q]]]

\* ---- cases ------------------------------------------------------------------------------------------------------------------
R(kind, n, x, b, c, L, m) == [kind |-> kind, n |-> n, x |-> RowMajor(x), b |-> RowMajor(b), c |-> RowMajor(c), L |-> L, m |-> m,
                              k |-> K(kind, x, b, m)]
N3 == 1..3
Direct == UNION {
     {R(kd, n, x, Zero3, Zero3, <<>>, 0) : kd \in {"det_s", "devdet_s", "dsquare", "daba_db"}, x \in XS(n)}
     \cup {R(kd, n, x, Zero3, Zero3, <<>>, 0) : kd \in {"det_t", "dCdF", "dBdF"}, x \in XF(n)}
     \* m = 1 asks for the second derivative too (linear in x: a basis and generic operands are complete)
     \cup {R(kd, n, x, Zero3, Zero3, <<>>, 1) : kd \in {"det_s", "devdet_s"}, x \in IF Thorough THEN XS(n) ELSE XS1(n)}
     \cup {R("det_t", n, x, Zero3, Zero3, <<>>, 1) : x \in IF Thorough THEN GenFull(n) \cup {FullOf(c) : c \in Sparse(Z9, NFull(n), 2)} ELSE XF1(n)}
     \cup {R(kd, n, Zero3, b, Zero3, <<>>, 0) : kd \in {"stpd", "st_tpld", "st_tprd"}, b \in XS(n)}
     \cup {R(kd, n, Zero3, b, Zero3, <<>>, 0) : kd \in {"t_tpld", "t_tprd"}, b \in XF(n)}
     \cup {R("daba_da", n, x, b, Zero3, <<>>, 0) : x \in XS1(n), b \in BS(n)}
     \cup {R("transpose", n, Zero3, Zero3, Zero3, <<>>, 0)}
     \cup {R(kd, n, x, Zero3, Zero3, <<>>, 0) : kd \in {"velgrad", "spinrate", "ratedef"}, x \in PosF(n)}
   : n \in N3}
Chain == UNION {
     {R("dsquare_c", n, x, Zero3, Zero3, L, 0) : x \in XS1(n), L \in LSS(n)}
     \cup {R(kd, n, Zero3, b, Zero3, L, 0) : kd \in {"st_tpld_c", "st_tprd_c"}, b \in XS1(n), L \in LSS(n)}
     \cup {R(kd, n, Zero3, b, Zero3, L, 0) : kd \in {"t_tpld_c", "t_tprd_c"}, b \in XF1(n), L \in LFF(n)}
   : n \in N3}
\* stresses as functions of the deformation gradient
\* the exact Jacobians are sums of a term linear in the stress and a term linear in the inner derivative: the stress ranges over
\* a basis + generic with one inner derivative, the inner derivative over its family with one stress
BL(n, LS) == {<<b, CHOOSE L \in LS : L = NatMat(LAMBDA Y : Sym2(Y), FALSE, "sym", n)>> : b \in BS(n)} \cup {<<G1(n), L>> : L \in LS}
BLS(n)    == {<<b, NatMat(LAMBDA Y : Dev3(Y), TRUE, "sym", n)>> : b \in BS(n)} \cup {<<G1(n), L>> : L \in LSS(n)}
Stress == UNION {
     {R(kd, n, x, bl[1], Zero3, bl[2], 0) : kd \in {"pushfwd", "sig_from_tau", "tau_from_sig", "pk1_from_sig"}, x \in PosF1(n), bl \in BL(n, LFS(n))}
     \* S = b = J S0, Cauchy stress c = x.S0.x^T (= x.S.x^T / J), dS/dE_GL = 2 L
     \cup {R("pk1_from_pk2", n, x, Scale(Det(x), bl[1]), Mul(x, Mul(bl[1], Transpose(x))), Twice(bl[2]), 0) : x \in PosF1(n), bl \in BLS(n)}
     \* S(x) = c = J S0, Cauchy stress b = x.S0.x^T, dP/dF = exact derivative of P(F) = F.S(F)
     \cup {LET o == R("tau_from_pk1", n, x, Mul(x, Mul(sm[1], Transpose(x))), Scale(Det(x), sm[1]), <<>>, sm[2])
           IN  [o EXCEPT !.L = NatMat(LAMBDA H : D1(4, LAMBDA Z : PK1Of(o, Z), H), FALSE, "full", n)]
           : x \in PosF1(n), sm \in {<<S0, 1>> : S0 \in BS(n)} \cup {<<G1(n), 0>>, <<G1(n), 2>>}}
   : n \in N3}
\* eigenvalues / eigentensors: s = M.diag(vp).M^T / d^2
QZ == {<<1, 0, 0, 0>>, <<1, 0, 0, 1>>, <<1, 0, 0, -1>>, <<0, 0, 0, 1>>, <<2, 0, 0, 1>>, <<1, 0, 0, 2>>, <<1, 0, 0, -2>>}
\* q and -q give the same rotation: first non-zero component positive
Q3 == {q \in {<<w, x, y, z>> : w \in 0..1, x \in -1..1, y \in -1..1, z \in -1..1} :
          QuatNorm(q) # 0 /\ (q[1] = 0 => (q[2] = 1 \/ (q[2] = 0 /\ (q[3] = 1 \/ (q[3] = 0 /\ q[4] = 1)))))}
      \cup {<<2, 1, 0, 0>>, <<2, 0, 1, 0>>, <<1, 0, 2, 0>>, <<0, 2, 1, 0>>, <<0, 1, 0, -2>>} \cup QZ
SV == IF Thorough THEN {-1, 0, 2, 3} ELSE {-1, 0, 2}
Spectra == {s \in {<<a, b, c>> : a \in SV, b \in SV, c \in SV} : s[1] # s[2] /\ s[1] # s[3] /\ s[2] # s[3]}
Eig == {R("eig", n, QuatMat(q), Diag(vp[1], vp[2], vp[3]), Zero3, <<>>, QuatNorm(q)) :
           n \in {3}, q \in Q3, vp \in Spectra}
       \cup {R("eig", 2, QuatMat(q), Diag(vp[1], vp[2], vp[3]), Zero3, <<>>, QuatNorm(q)) : q \in QZ, vp \in Spectra}
       \cup {R("eig", 1, Id3, Diag(vp[1], vp[2], vp[3]), Zero3, <<>>, 1) : vp \in Spectra}

Number(S) == LET s == SetToSeq(S) IN [i \in 1..Len(s) |-> [id |-> i] @@ s[i]]
All == Direct \cup Chain \cup Stress \cup Eig
ASSUME OracleTheorems
\* the generator must produce operands of the right shape, deformation gradients with det > 0, every kind in every dimension
ASSUME \A o \in All : HasShape(o.n, OfRowMajor(o.x)) /\ HasShape(o.n, OfRowMajor(o.b)) /\ HasShape(o.n, OfRowMajor(o.c))
ASSUME \A n \in N3 : PosF1(n) # {} /\ \A kd \in Kinds \cup {"eig"} : \E o \in All : o.kind = kd /\ o.n = n
ASSUME \A o \in Stress : Det(OfRowMajor(o.x)) > 0
ASSUME \E o \in Stress : Det(OfRowMajor(o.x)) > 1
ASSUME ndJsonSerialize(IOEnv.OUT, Number(All))
ASSUME PrintT(<<"GEN", Cardinality(Direct), Cardinality(Chain), Cardinality(Stress), Cardinality(Eig)>>)
=============================================================================

---------------------------- MODULE ScalarNewtonTrace ----------------------------
EXTENDS ScalarNewton, TraceIO
tvars == <<svars, l>>
TraceInit == SInit /\ l = 1
B(x) == x = 1
TBegin == IsEvent("Begin") /\ phase \in {"idle", "returned"} /\ SBegin(Ev.a, B(Ev.hasb), Ev.lo, Ev.hi)
TEval == IsEvent("Eval") /\ SEval(Ev.xr, B(Ev.xfin), B(Ev.ffin), Ev.fs)
TCrit == IsEvent("Crit") /\ SCrit(Ev.xr, B(Ev.xfin), B(Ev.ffin), B(Ev.res), Ev.i)
TReturn == IsEvent("Return") /\ SReturn(B(Ev.conv), Ev.xr, B(Ev.xfin), Ev.i)
TraceNext == TBegin \/ TEval \/ TCrit \/ TReturn
TraceSpec == TraceInit /\ [][TraceNext]_tvars
=============================================================================

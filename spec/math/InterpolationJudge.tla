---------------------------- MODULE InterpolationJudge ----------------------------
(* observations of harness/interpolation.cxx: every logged value is round(result * den) with the
   denominators supplied by GEN; `loose` lists results that were not within tolerance of an integer *)
EXTENDS Interpolation, Judge
Check(name, b) == IF b THEN {} ELSE {name}
Times(r, den) == IF den % r[2] = 0 THEN r[1] * (den \div r[2]) ELSE -999999     \* den is a multiple of r's denominator
Fails(o) ==
  LET xs == o.xs ys == o.ys q == RNorm(o.q[1], o.q[2])
      a == RI(xs[1] - 1)
      I == IF Len(xs) >= 2 THEN SplineIntegral(xs, ys, a, q) ELSE RMul(RI(ys[1]), RSub(q, a))
  IN
     Check("linear(extrapolate)", o.line = Times(Linear(xs, ys, q, TRUE), o.dlin))
     \cup Check("linear(clamp)", o.linc = Times(Linear(xs, ys, q, FALSE), o.dlin))
     \cup Check("linear-derivative(extrapolate)", \E d \in LinearDerivs(xs, ys, q, TRUE) : o.dline = Times(d, 2))
     \cup Check("linear-derivative(clamp)", \E d \in LinearDerivs(xs, ys, q, FALSE) : o.dlinc = Times(d, 2))
     \cup Check("linear-AndDerivative-value", o.line2 = o.line /\ o.linc2 = o.linc)
     \cup Check("spline:value", o.spl = Times(Spline(xs, ys, q), o.dspl))
     \cup Check("spline:getValues-consistent", o.spl2 = o.spl /\ o.spl3 = o.spl /\ o.d1b = o.d1)
     \cup Check("spline:derivative", o.d1 = Times(SplineD1(xs, ys, q), o.dspl))
     \cup Check("spline:second-derivative", o.d2 = Times(SplineD2(xs, ys, q), o.dspl))
     \cup Check("spline:clamp", o.splc = IF Below(xs, q) /\ Len(xs) > 1 THEN ys[1] * o.dspl
                                        ELSE IF Above(xs, q) /\ Len(xs) > 1 THEN ys[Len(xs)] * o.dspl
                                        ELSE Times(Spline(xs, ys, q), o.dspl))
     \cup Check("spline:integral", o.int = Times(I, o.dint))
     \cup Check("spline:integral", o.int2 = Times(SignedIntegral(xs, ys, <<2 * xs[Len(xs)] + 1, 2>>, q), o.dint2))
     \cup Check("spline:integral", o.int3 = Times(SignedIntegral(xs, ys, <<2 * xs[1] + 1, 2>>, q), o.dint3))
     \cup Check("spline:integral-antisymmetric", o.intrev = -o.int)
     \cup Check("spline:integral-additive", o.intadd = o.int)
     \cup Check("spline:mean-value", q = a \/ o.mean = o.int)
     \cup {"inexact:" \o o.loose[i] : i \in 1..Len(o.loose)}
ASSUME JudgeAll(Fails)
=============================================================================

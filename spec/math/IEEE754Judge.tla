------------------------------ MODULE IEEE754Judge ------------------------------
(* one observation = one (build, type, row, observed answers) bucket of the harness's sweep with its
   number of encodings (hi, lo 16-bit words) *)
EXTENDS IEEE754, Judge
Check(name, b) == IF b THEN {} ELSE {name}
Fails(o) ==
  LET c == Class(o.type, o.ecls, o.msb, o.frac) IN
     Check("fpclassify:" \o o.type \o ":" \o o.build, o.cls = c)
     \cup Check("isnan:" \o o.type \o ":" \o o.build, (o.isnan = 1) = IsNan(c))
     \cup Check("isfinite:" \o o.type \o ":" \o o.build, (o.isfinite = 1) = IsFinite(c))
     \cup Check("platform-libc-differs", o.libc = "na" \/ o.libc = c)
     \cup Check("count:" \o o.build, o.type # "float" \/ <<o.hi, o.lo>> = FloatCount(o.ecls, o.frac))
ASSUME Theorem
\* every row of the table was observed in both builds for the three types
Rows(type) == {<<e, m, f>> : e \in {"zero", "mid", "max"}, m \in (IF type = "ldouble" THEN {0, 1} ELSE {-1}), f \in {0, 1}}
ASSUME \A b \in {"O2", "Ofast"} : \A t \in {"float", "double", "ldouble"} :
          {<<Obs[i].ecls, Obs[i].msb, Obs[i].frac>> : i \in {j \in 1..Len(Obs) : Obs[j].build = b /\ Obs[j].type = t}} = Rows(t)
ASSUME JudgeAll(Fails)
=============================================================================

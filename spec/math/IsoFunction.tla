------------------------------ MODULE IsoFunction ------------------------------
(* C05 - isotropic functions of a symmetric tensor and their derivatives.

   For A = M diag(l) M^T (Spectral.tla: eigenvalues vp_i = n^2 l_i, eigenvectors the columns of M / n, eigen
   tensors N_i = Dyad(M, i) / n^2) and a scalar function f, the isotropic tensor function is
        f(A) = sum_i f(vp_i) N_i                                                   (docs/web/tensors.md)
   and, for a C1 function, its directional derivative in the direction D is (Daleckii - Krein)
        Df(A)[D] = sum_{i,j} theta_ij N_i D N_j,   theta_ii = f'(vp_i),
        theta_ij = (f(vp_i) - f(vp_j)) / (vp_i - vp_j) if vp_i # vp_j, f'(vp_i) otherwise.
   For a polynomial f both are the matrix polynomial and its Frechet derivative, which this module computes
   with integers: that is the oracle.  The agreement of the two definitions on the lattice is a theorem checked
   by TLC (PolyTheorems).  positive_part / negative_part / absolute_value are f(x) = max(x,0), min(x,0), |x|:
   on the lattice their values are again integer tensors; sqrt on perfect squares likewise (times n).

   The implementation takes a threshold eps: eigenvalues closer than eps are treated as equal (the limit formula
   with f' is used).  When two *distinct* expected eigenvalues are within eps the answer may therefore deviate
   from the exact derivative by O(eps / norm): RegApplies / RegTol. *)
EXTENDS Spectral
PolyFns == {"id", "affine", "square", "cube"}
Deg(f) == CASE f = "id" -> 1 [] f = "affine" -> 1 [] f = "square" -> 2 [] f = "cube" -> 3 [] OTHER -> 0
\* scalar function and derivative (integers)
FScal(f, x) == CASE f = "id" -> x [] f = "affine" -> 2 * x + 3 [] f = "square" -> x * x [] f = "cube" -> x * x * x
                 [] f = "pos" -> Max2(x, 0) [] f = "neg" -> Min2(x, 0) [] f = "abs" -> Abs_(x)
DScal(f, x) == CASE f = "id" -> 1 [] f = "affine" -> 2 [] f = "square" -> 2 * x [] f = "cube" -> 3 * x * x
\* matrix polynomial and its Frechet derivative, from the algebra of 3x3 matrices only
MatF(f, A) == CASE f = "id" -> A [] f = "affine" -> Ev(Add(Scale(2, A), Scale(3, Id3))) [] f = "square" -> Ev(Mul(A, A))
                [] f = "cube" -> Ev(Mul(A, Ev(Mul(A, A))))
MatDF(f, A, D) == CASE f = "id" -> D [] f = "affine" -> Ev(Scale(2, D)) [] f = "square" -> Ev(Add(Mul(A, D), Mul(D, A)))
                    [] f = "cube" -> LET A2 == Ev(Mul(A, A)) IN Ev(Add(Mul(A2, D), Add(Mul(A, Ev(Mul(D, A))), Mul(D, A2))))
\* the same from the decomposition, without forming large intermediate products:
\*   A^d = n^(2(d-1)) M diag(l^d) M^T   (because M^T M = n^2 Id)
Pow(x, d) == IF d = 1 THEN x ELSE IF d = 2 THEN x * x ELSE x * x * x
PowTensor(r, l, d) == Ev(Scale(Pow(r.n * r.n, d - 1), TensorOf(r.M, <<Pow(l[1], d), Pow(l[2], d), Pow(l[3], d)>>)))
SpecF(f, r, l) == CASE f = "id" -> TensorOf(r.M, l) [] f = "affine" -> Ev(Add(Scale(2, TensorOf(r.M, l)), Scale(3, Id3)))
                    [] f = "square" -> PowTensor(r, l, 2) [] f = "cube" -> PowTensor(r, l, 3)
                    [] f = "pos" -> TensorOf(r.M, <<Max2(l[1], 0), Max2(l[2], 0), Max2(l[3], 0)>>)
                    [] f = "neg" -> TensorOf(r.M, <<Min2(l[1], 0), Min2(l[2], 0), Min2(l[3], 0)>>)
                    [] f = "abs" -> TensorOf(r.M, <<Abs_(l[1]), Abs_(l[2]), Abs_(l[3])>>)
SpecDF(f, r, l, D) == LET A == TensorOf(r.M, l) IN
   CASE f = "id" -> D [] f = "affine" -> Ev(Scale(2, D)) [] f = "square" -> Ev(Add(Mul(A, D), Mul(D, A)))
     [] f = "cube" -> LET A2 == PowTensor(r, l, 2) IN Ev(Add(Mul(A2, D), Add(Mul(A, Ev(Mul(D, A))), Mul(D, A2))))
\* n x sqrt(A) for l perfect squares
Sqrt(x) == CHOOSE s \in 0..46340 : s * s = x
IsSquare(x) == x >= 0 /\ \E s \in 0..Min2(x, 46340) : s * s = x
SqrtTensorTimesN(r, l) == TensorOf(r.M, <<Sqrt(l[1]), Sqrt(l[2]), Sqrt(l[3])>>)
\* directions: the symmetric unit tensors (a basis of the symmetric tensors of dimension n: 3, 4 or 6 of them)
Basis == <<SymOf(<<1, 0, 0, 0, 0, 0>>), SymOf(<<0, 1, 0, 0, 0, 0>>), SymOf(<<0, 0, 1, 0, 0, 0>>),
           SymOf(<<0, 0, 0, 1, 0, 0>>), SymOf(<<0, 0, 0, 0, 1, 0>>), SymOf(<<0, 0, 0, 0, 0, 1>>)>>
NbDir(n) == IF n = 1 THEN 3 ELSE IF n = 2 THEN 4 ELSE 6
\* expected arrays sent to the harness: components 11 22 33 12 13 23 of f(A), and of Df(A)[Basis[b]] for each b
ExpF(f, r, l) == CompOf(SpecF(f, r, l))
ExpDF(f, r, l, n) == LET g(b) == CompOf(SpecDF(f, r, l, Basis[b])) IN     \* a tuple: evaluated once
                     IF n = 1 THEN <<g(1), g(2), g(3)>> ELSE IF n = 2 THEN <<g(1), g(2), g(3), g(4)>>
                     ELSE <<g(1), g(2), g(3), g(4), g(5), g(6)>>
\* ---- Daleckii - Krein with integers: n^4 Df(A)[D] = sum theta_ij Dyad_i D Dyad_j (polynomial f: theta integer) ----
Theta(f, vp, i, j) == IF vp[i] = vp[j] THEN DScal(f, vp[i]) ELSE (FScal(f, vp[i]) - FScal(f, vp[j])) \div (vp[i] - vp[j])
DK(f, r, l, D) == LET vp == EigenOf(r.n, l)
                      T(i, j) == Ev(Scale(Theta(f, vp, i, j), Mul(Dyad(r.M, i), Ev(Mul(D, Dyad(r.M, j))))))
                      Row(i) == Ev(Add(T(i, 1), Add(T(i, 2), T(i, 3))))
                  IN Ev(Add(Row(1), Add(Row(2), Row(3))))
SpectralSum(f, r, l) == LET vp == EigenOf(r.n, l) IN
   Ev(Add(Scale(FScal(f, vp[1]), Dyad(r.M, 1)), Add(Scale(FScal(f, vp[2]), Dyad(r.M, 2)), Scale(FScal(f, vp[3]), Dyad(r.M, 3)))))
Pow4(n) == n * n * n * n
PolyTheorems(check) ==
  \A r \in {R(1, Id3), R(1, C111), R(1, Cz), R(5, Px), R(5, Pz), R(3, Q3)} : \A l \in Cube({-1, 0, 1, 2}) : LET A == TensorOf(r.M, l) IN
     /\ \A f \in PolyFns :
          /\ SpecF(f, r, l) = MatF(f, A)                                            \* decomposition form = matrix polynomial
          /\ Ev(Scale(r.n * r.n, MatF(f, A))) = SpectralSum(f, r, l)                    \* = sum f(vp_i) N_i  (the statement)
          /\ \A b \in 1..6 : /\ SpecDF(f, r, l, Basis[b]) = MatDF(f, A, Basis[b])
                             /\ Ev(Scale(Pow4(r.n), MatDF(f, A, Basis[b]))) = DK(f, r, l, Basis[b])   \* Frechet = Daleckii - Krein
     \* the derivative is the derivative: exact second-order Taylor expansion of the square, third order of the cube
     /\ \A b \in 1..6 : LET D == Basis[b] IN
          /\ MatF("square", Ev(Add(A, D))) = Ev(Add(MatF("square", A), Add(MatDF("square", A, D), Mul(D, D))))
          /\ Ev(Sub(MatF("cube", Ev(Add(A, D))), MatF("cube", Ev(Sub(A, D))))) = Ev(Add(Scale(2, MatDF("cube", A, D)), Scale(2, Mul(D, Ev(Mul(D, D))))))
     \* positive + negative part = identity function, |x| = pos - neg
     /\ Ev(Add(SpecF("pos", r, l), SpecF("neg", r, l))) = A /\ Ev(Sub(SpecF("pos", r, l), SpecF("neg", r, l))) = SpecF("abs", r, l)
     /\ Ev(Scale(r.n * r.n, SpecF("pos", r, l))) = SpectralSum("pos", r, l)
     /\ (\A i \in 1..3 : IsSquare(l[i])) => Ev(Mul(SqrtTensorTimesN(r, l), SqrtTensorTimesN(r, l))) = Ev(Scale(r.n * r.n, A))
\* ---- tolerances ----
\* eps = eps2 . 2^epsk (in the units of the case).  Two distinct expected eigenvalues within eps: the regularised
\* formula applies and the result is only eps-accurate.  (epsk < -20 only occurs with eps2 = norm and spectra whose
\* distinct eigenvalues are separated by more than norm / 2^20: asserted by the generator.)
RegApplies(E, eps2, epsk) ==
  epsk >= -20 /\ \E i, j \in 1..3 : E[i] # E[j] /\ Abs_(E[i] - E[j]) * 2^(-epsk) <= eps2
Log2Ceil(q) == CHOOSE c \in 0..30 : q <= 2^c /\ (c = 0 \/ q > 2^(c - 1))
\* smallest p with eps <= 2^p norm, plus 3 bits
RegTol(E, eps2, epsk) == LET q == (Norm(E) * 2^(-epsk)) \div eps2 IN 3 - (IF q <= 1 THEN 0 ELSE Log2Ceil(q) - 1)
\* static API called with the exact decomposition: only rounding (the eigenvectors M / n are rounded once)
TolStatic == -44
\* through an eigen-solver: its tolerance on this spectrum (C03) and 6 bits for the amplification by f, f' and
\* the divided differences
TolSolver(n, s, E) == Min2(0, TolVec(n, s, E) + 6)
TolCase(c) == LET base == IF c.path = "static" THEN TolStatic ELSE Max2(TolStatic, TolSolver(c.n, c.solver, c.ev)) IN
              IF RegApplies(c.ev, c.eps2, c.epsk) THEN Max2(base, RegTol(c.ev, c.eps2, c.epsk)) ELSE base
=============================================================================

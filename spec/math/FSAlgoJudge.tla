------------------------------ MODULE FSAlgoJudge ------------------------------
EXTENDS FSAlgo, Judge
Check(name, b) == IF b THEN {} ELSE {name}
Fails(o) ==
  LET s == o.s t == o.t n == o.n IN
     Check("copy", o.copy = s) \cup Check("fill", o.fill = EFill(n, 9))
     \* the same through pointers and through iterators that are not random access
     \cup Check("copy(pointers)", o.copyp = s) \cup Check("copy(list)", o.copyl = s)
     \* an algorithm that returns an iterator returns what its standard counterpart returns: one past the last element written
     \* (-1: the algorithm returns nothing)
     \cup UNION {Check("returned-iterator:" \o k, o[k] \in {-1, n}) : k \in {"copyret", "copypret", "copylret", "fillret", "tr1ret", "tr2ret", "genret", "iotaret", "swapret"}}
     \cup Check("transform(unary)", o.tr1 = ETransform1(s)) \cup Check("transform(binary)", o.tr2 = ETransform2(s, t))
     \cup Check("accumulate", o.acc = EAccumulate(s, 5)) \cup (IF o.accop = EAccumulateOp(s, 1) THEN {}
           ELSE IF o.accop = FoldL(LAMBDA a, x : MixOp(x, a), 1, s) THEN {"accumulate(op):folds-op(element,acc)"}
           ELSE {"accumulate(op)"})
     \cup Check("inner_product", o.ip = EInner(s, t, 7)) \cup Check("inner_product(op1,op2)", o.ipop = EInnerOp(s, t, 1))
     \cup Check("inner_product<T>", n = 0 \/ o.ipt = EInner(s, t, 0))
     \cup Check("equal", (o.eq = 1) = EEqual(s, t)) \cup Check("equal(pred)", (o.eqp = 1) = EEqualPred(s, t))
     \cup Check("for_each", o.foreach = s) \cup Check("generate", o.gen = EIota(n, 10)) \cup Check("iota", o.iota = EIota(n, 4))
     \cup Check("min_element", n = 0 \/ o.minidx = EMinIdx(s)) \cup Check("max_element", n = 0 \/ o.maxidx = EMaxIdx(s))
     \cup Check("min_element(comp)", n = 0 \/ o.mincmp = EMaxIdx(s)) \cup (IF n = 0 \/ o.maxcmp = EMinIdx(s) THEN {}
           ELSE IF o.maxcmp = EMaxIdx(s) THEN {"max_element(comp):comparator-sense-inverted"} ELSE {"max_element(comp)"})
     \cup Check("swap_ranges", o.swapa = t /\ o.swapb = s)
     \cup Check("untouched-beyond-N", o.guard = 1)
ASSUME JudgeAll(Fails)
=============================================================================

---------------------------- MODULE InterpolationGen ----------------------------
(* GEN for C11: every table of 1..K nodes with gaps in {1,2} and values in -1..1, every query on a half
   integer grid from one unit below to one unit above the table; for each query the denominators of the
   expected results (so that the harness can log exact integers). *)
EXTENDS Interpolation, TLC, Json, IOUtils, SequencesExt, FiniteSets
Thorough == IOEnv.TIER = "thorough"
K == 4
RECURSIVE Cum(_, _)
Cum(g, i) == IF i = 0 THEN 0 ELSE g[i] + Cum(g, i - 1)
AllTables == UNION {{[xs |-> [i \in 1..k |-> Cum(g, i - 1)], ys |-> y] : g \in [1..(k - 1) -> 1..2], y \in [1..k -> -1..1]} : k \in 1..K}
\* quick tier: all tables up to 3 nodes, and the 4-node tables with y1 = 0, y2 >= 0 and a non-uniform mesh
\* thorough tier: all tables up to 4 nodes (5-node tables: the exact rational spline solves overflow TLC's 32-bit integers
\* on some tables, and all of them take more than an hour)
Tables == IF Thorough THEN AllTables
          ELSE {t \in AllTables : Len(t.xs) <= 3 \/ (t.ys[1] = 0 /\ t.ys[2] >= 0 /\ t.xs[4] \in {4, 5})}
Queries(xs) == {<<p, 2>> : p \in (2 * xs[1] - 2)..(2 * xs[Len(xs)] + 2)}        \* p/2 (not normalised: the harness divides)
Q(q) == RNorm(q[1], q[2])
Den(r) == r[2]
LCM(a, b) == (a * b) \div GCD(a, b)
QCase(t, q) == [xs |-> t.xs, ys |-> t.ys, q |-> q,
                dlin |-> LCM(Den(Linear(t.xs, t.ys, Q(q), TRUE)), 2),
                dspl |-> LCM(LCM(Den(Spline(t.xs, t.ys, Q(q))), Den(SplineD1(t.xs, t.ys, Q(q)))), Den(SplineD2(t.xs, t.ys, Q(q)))),
                dint |-> IF Len(t.xs) >= 2 THEN Den(SplineIntegral(t.xs, t.ys, RI(t.xs[1] - 1), Q(q))) * 4 ELSE 4,
                \* two more lower bounds: half a unit above the last node and half a unit above the first node
                dint2 |-> Den(SignedIntegral(t.xs, t.ys, <<2 * t.xs[Len(t.xs)] + 1, 2>>, Q(q))) * 4,
                dint3 |-> Den(SignedIntegral(t.xs, t.ys, <<2 * t.xs[1] + 1, 2>>, Q(q))) * 4]
Cases == UNION {{QCase(t, q) : q \in Queries(t.xs)} : t \in Tables}
Number(S) == LET s == SetToSeq(S) IN [i \in 1..Len(s) |-> [id |-> i] @@ s[i]]
ASSUME Theorems
ASSUME ndJsonSerialize(IOEnv.OUT, Number(Cases))
ASSUME PrintT(<<"GEN", Cardinality(Tables), Cardinality(Cases)>>)
=============================================================================

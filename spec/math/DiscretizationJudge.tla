--------------------------- MODULE DiscretizationJudge ---------------------------
EXTENDS Discretization, Judge
Check(name, b) == IF b THEN {} ELSE {name}
Fails(o) == Check("threw", o.thrown = 0)
            \cup (IF o.thrown = 1 THEN {} ELSE
                  Check("node-count", o.count = o.n + 1) \cup Check("end-points", o.first = 1 /\ o.last = 1)
                  \cup Check("not-strictly-monotone", {o.signs[i] : i \in 1..Len(o.signs)} = {o.dir})
                  \cup Check("ratio-not-constant", o.ratio \in {"const", "na"}))
ASSUME JudgeAll(Fails)
=============================================================================

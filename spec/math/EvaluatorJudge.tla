----------------------------- MODULE EvaluatorJudge -----------------------------
(* observations of harness/evaluator.cxx
   arith : per variant (min, ws, full) the outcome "value" | "throw", the nearest integer of value * den and
           tightness; derivative with respect to x and y likewise (times ddx, ddy; 0 = not judged exactly: an exponent
           depends on the variable; then dx.fd / dy.fd in {"match", "mismatch", "na"} is the comparison of the derivative
           with a Richardson finite difference of the evaluator's own values)
   fn    : expect / got in {"value", "throw"} (expect from the C library function of the documented name on the
           same argument), agree = within 4 ulp; dgot in {"value", "throw"}, dclass in {"match", "mismatch", "na"}
           (derivative against a Richardson finite difference of the evaluator's own values), dgoty / dclassy likewise
           with respect to y; fnn = composition f(g(arg)) + arg of two functions, same fields
   reject: got
   cond  : conditional / logical expression, printed minimally and fully parenthesised: min, full as for arith (den = 1);
           inner = value of the conditional computed by Evaluator.tla (Holds / CondVal), wrap = "" | "2*(" | "1+(" *)
EXTENDS Evaluator, Judge
Check(name, b) == IF b THEN {} ELSE {name}
Exactly(r, n) == r.got = "value" /\ r.tight /\ r.q = n
Times(r, den) == IF den % r[2] = 0 THEN r[1] * (den \div r[2]) ELSE -999999
\* C13: getCxxFormula preserves the value (cxxv = value of the compiled C++ formula, "skip" when not compiled in this tier)
CxxOK(o, expected) == o.cxxv.got = "skip" \/ (o.cxxv.got = "value" /\ o.cxxv.tight /\ o.cxxv.q = expected)
FailsArith(o) ==
  LET v == Val(o.tree)[2] IN
     Check("cxx-formula", CxxOK(o, Times(v, o.den))) \cup
     UNION {Check("value:" \o k, o[k].got = "value" /\ o[k].tight /\ o[k].q = Times(v, o.den)) : k \in {"min", "ws", "full"}}
     \cup (IF o.ddx = 0 THEN Check("derivative:finite-difference", o.dx.got = "throw" \/ o.dx.fd \in {"match", "na"})
           ELSE Check("derivative", o.dx.got = "value" /\ o.dx.tight /\ o.dx.q = Times(Val(D(o.tree, "x"))[2], o.ddx)))
     \cup (IF o.ddy = 0 THEN Check("derivative:finite-difference", o.dy.got = "throw" \/ o.dy.fd \in {"match", "na"})
           ELSE Check("derivative", o.dy.got = "value" /\ o.dy.tight /\ o.dy.q = Times(Val(D(o.tree, "y"))[2], o.ddy)))
FailsFn(o) == Check("function:" \o o.f, o.got = o.expect /\ (o.got = "throw" \/ o.agree))
              \cup Check("derivative:" \o o.f, o.got = "throw" \/ o.dgot = "throw" \/ o.dclass \in {"match", "na"})
              \cup Check("derivative:" \o o.f, o.got = "throw" \/ o.dgoty = "throw" \/ o.dclassy \in {"match", "na"})
CondExpected(o) == IF o.wrap = "2*(" THEN 2 * o.inner ELSE IF o.wrap = "1+(" THEN 1 + o.inner ELSE o.inner
\* parameters and external functions: direct value, value after resolveDependencies(), value of the function obtained by turning
\* p into a variable (set to the value of p), resolved or not; when the formula does not name p the rewriting may be refused
Rewritten(o, r) == IF o.direct THEN Exactly(r, o.n0) ELSE (r.got = "throw" \/ Exactly(r, o.n0))
FailsDeps(o) == Check("dependencies:direct", Exactly(o.direct_, o.n0)) \cup Check("dependencies:resolved", Exactly(o.resolved, o.n0))
                \cup Check("dependencies:parameter-as-variable", Rewritten(o, o.asvar))
                \cup Check("dependencies:parameter-as-variable-then-resolved", Rewritten(o, o.asvarres))
DWrap(o, d) == IF o.wrap = "2*(" THEN 2 * d ELSE d
FailsCond(o) == Check("cxx-formula:conditional", CxxOK(o, CondExpected(o)))
                \cup Check("derivative:conditional", Exactly(o.dx, DWrap(o, o.dxi)) /\ Exactly(o.dy, DWrap(o, o.dyi)))
                \cup UNION {Check("conditional:" \o k, o[k].got = "value" /\ o[k].tight /\ o[k].q = CondExpected(o)) : k \in {"min", "full"}}
Fails(o) == IF o.kind = "arith" THEN FailsArith(o)
            ELSE IF o.kind = "cond" THEN FailsCond(o)
            ELSE IF o.kind = "deps" THEN FailsDeps(o)
            ELSE IF o.kind = "reject" THEN Check("accepts-malformed", o.got = "throw")
            ELSE IF o.kind = "silent" THEN Check("silent-different-parse", o.got = "throw" \/ (o.tight /\ o.q = o.num))
            ELSE FailsFn(o)
ASSUME JudgeAll(Fails)
=============================================================================

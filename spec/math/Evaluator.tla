-------------------------------- MODULE Evaluator --------------------------------
(* C13 / C14 - the formula language of tfel::math::Evaluator (docs/web/math.md).

   Abstract syntax (records):   [t |-> "num", v]   [t |-> "var", n]   [t |-> "neg", a]
                                [t |-> "bin", op, a, b]   op in "+" "-" "*" "/" "**"
   Semantics: exact rationals (Rat.tla) with x = 2, y = 3; "**" only with a small non-negative integer
   exponent; division only by non-zero.  Undefined(e) marks trees outside this fragment (not generated).
   Concrete syntax: a printer that inserts parentheses only where the documented "standard priority"
   requires them: power above unary minus above product and quotient above sum and difference, left associativity of the four arithmetic operators, never relying
   on the associativity of the power operator nor on a binary operator followed by a unary minus, plus a fully
   parenthesised variant and a variant with white space.  All variants of one tree must evaluate to the
   tree's value: a precedence or associativity error in the parser shows as a wrong value.
   Derivation: the usual rules on the same trees (C14). *)
EXTENDS Rat, Integers, Sequences, TLC
Num(v) == [t |-> "num", v |-> v]
Var(n) == [t |-> "var", n |-> n]
Neg(a) == [t |-> "neg", a |-> a]
Bin(op, a, b) == [t |-> "bin", op |-> op, a |-> a, b |-> b]
Ops == {"+", "-", "*", "/", "**"}
VarVal(n) == IF n = "x" THEN RI(2) ELSE RI(3)
Big(r) == AbsI(r[1]) > 1000000 \/ r[2] > 1000000
RECURSIVE RPow(_, _)
RPow(r, k) == IF k = 0 THEN RI(1) ELSE RMul(r, RPow(r, k - 1))
\* Val(e) = <<defined?, rational>>
RECURSIVE Val(_)
Val(e) ==
  CASE e.t = "num" -> <<TRUE, RI(e.v)>>
    [] e.t = "var" -> <<TRUE, VarVal(e.n)>>
    [] e.t = "neg" -> LET a == Val(e.a) IN <<a[1], RNeg(a[2])>>
    [] e.t = "bin" ->
         LET a == Val(e.a) b == Val(e.b) IN
         IF ~a[1] \/ ~b[1] THEN <<FALSE, RI(0)>>
         ELSE IF e.op = "+" THEN <<~Big(RAdd(a[2], b[2])), RAdd(a[2], b[2])>>
         ELSE IF e.op = "-" THEN <<~Big(RSub(a[2], b[2])), RSub(a[2], b[2])>>
         ELSE IF e.op = "*" THEN <<~Big(RMul(a[2], b[2])), RMul(a[2], b[2])>>
         ELSE IF e.op = "/" THEN (IF b[2][1] = 0 THEN <<FALSE, RI(0)>> ELSE <<~Big(RDiv(a[2], b[2])), RDiv(a[2], b[2])>>)
         ELSE IF b[2][2] = 1 /\ b[2][1] \in 0..4 /\ a[2][1] # 0
              THEN <<~Big(RPow(a[2], b[2][1])), RPow(a[2], b[2][1])>> ELSE <<FALSE, RI(0)>>
\* ---- printers ----
Prec(e) == IF e.t \in {"num", "var", "call"} THEN 9 ELSE IF e.t = "neg" THEN 3
           ELSE IF e.op = "**" THEN 4 ELSE IF e.op \in {"*", "/"} THEN 2 ELSE 1
P(s) == "(" \o s \o ")"
RECURSIVE PrMin(_, _), PrFull(_)
\* sp = "" or " " around binary operators
PrMin(e, sp) ==
  CASE e.t = "num" -> ToString(e.v)
    [] e.t = "var" -> e.n
    [] e.t = "call" -> "f(" \o PrMin(e.a, sp) \o ")"
    [] e.t = "neg" -> "-" \o (IF e.a.t = "neg" \/ (e.a.t = "bin" /\ e.a.op \in {"+", "-"}) THEN P(PrMin(e.a, sp)) ELSE PrMin(e.a, sp))
    [] e.t = "bin" ->
         LET l == PrMin(e.a, sp) r == PrMin(e.b, sp)
             lp == IF e.op = "**" THEN Prec(e.a) < 9 ELSE (e.a.t = "neg" \/ Prec(e.a) < Prec(e))
             rp == IF e.op = "**" THEN Prec(e.b) < 9 ELSE (e.b.t = "neg" \/ Prec(e.b) <= Prec(e))
         IN (IF lp THEN P(l) ELSE l) \o sp \o e.op \o sp \o (IF rp THEN P(r) ELSE r)
PrFull(e) ==
  CASE e.t = "num" -> ToString(e.v)
    [] e.t = "var" -> e.n
    [] e.t = "call" -> "f(" \o PrFull(e.a) \o ")"
    [] e.t = "neg" -> P("-" \o PrFull(e.a))
    [] e.t = "bin" -> P(PrFull(e.a) \o e.op \o PrFull(e.b))
\* ---- derivative with respect to variable x (C14) ----
RECURSIVE D(_, _)
D(e, x) ==
  CASE e.t = "num" -> Num(0)
    [] e.t = "var" -> IF e.n = x THEN Num(1) ELSE Num(0)
    [] e.t = "neg" -> Neg(D(e.a, x))
    [] e.t = "bin" ->
         IF e.op = "+" THEN Bin("+", D(e.a, x), D(e.b, x))
         ELSE IF e.op = "-" THEN Bin("-", D(e.a, x), D(e.b, x))
         ELSE IF e.op = "*" THEN Bin("+", Bin("*", D(e.a, x), e.b), Bin("*", e.a, D(e.b, x)))
         ELSE IF e.op = "/" THEN Bin("/", Bin("-", Bin("*", D(e.a, x), e.b), Bin("*", e.a, D(e.b, x))), Bin("*", e.b, e.b))
         ELSE Bin("*", Bin("*", e.b, Bin("**", e.a, Bin("-", e.b, Num(1)))), D(e.a, x))   \* constant integer exponent (see ConstExp)
\* a "**" whose exponent does not depend on any variable
RECURSIVE HasVar(_)
HasVar(e) == CASE e.t = "num" -> FALSE [] e.t = "var" -> TRUE [] e.t = "neg" -> HasVar(e.a) [] e.t = "bin" -> HasVar(e.a) \/ HasVar(e.b)
RECURSIVE ConstExp(_)
ConstExp(e) == CASE e.t \in {"num", "var"} -> TRUE [] e.t = "neg" -> ConstExp(e.a)
                 [] e.t = "bin" -> ConstExp(e.a) /\ ConstExp(e.b) /\ (e.op # "**" \/ (~HasVar(e.b) /\ Val(e.b)[1] /\ Val(e.b)[2][1] >= 1))
\* the power rule of D is the derivative with respect to v as soon as no exponent depends on v (the exponent may depend on
\* the other variable: d/dx x**y = y*x**(y-1)); an exponent that depends on v needs a logarithm: not judged exactly
RECURSIVE DependsOn(_, _)
DependsOn(e, v) == CASE e.t = "num" -> FALSE [] e.t = "var" -> e.n = v [] e.t = "neg" -> DependsOn(e.a, v) [] e.t = "call" -> DependsOn(e.a, v)
                     [] e.t = "bin" -> DependsOn(e.a, v) \/ DependsOn(e.b, v)
RECURSIVE ExpIndep(_, _)
ExpIndep(e, v) == CASE e.t \in {"num", "var"} -> TRUE [] e.t = "neg" -> ExpIndep(e.a, v)
                    [] e.t = "bin" -> ExpIndep(e.a, v) /\ ExpIndep(e.b, v)
                                      /\ (e.op # "**" \/ (~DependsOn(e.b, v) /\ Val(e.b)[1] /\ Val(e.b)[2][2] = 1 /\ Val(e.b)[2][1] >= 1))
\* ---- conditional and logical expressions (C13) ----------------------------------------------------------------
(* logical expressions:  [t |-> "cmp", op, a, b]  (op in < <= > >= ==, a and b arithmetic trees)
                         [t |-> "and", a, b]  [t |-> "or", a, b]  [t |-> "not", a]
   conditional:          [t |-> "cond", c, a, b]   value of a if c holds, of b otherwise
   Concrete syntax: the usual convention - a comparison binds tighter than "&&", which binds tighter than "||"; "!" is only
   written in front of a parenthesised logical expression; a conditional expression inside an arithmetic one is
   parenthesised (nested conditionals without parentheses are refused by the evaluator, documented). *)
CmpOps == {"<", "<=", ">", ">=", "=="}
Cmp(op, a, b) == [t |-> "cmp", op |-> op, a |-> a, b |-> b]
And(a, b) == [t |-> "and", a |-> a, b |-> b]
Or(a, b) == [t |-> "or", a |-> a, b |-> b]
Not(a) == [t |-> "not", a |-> a]
Cond(c, a, b) == [t |-> "cond", c |-> c, a |-> a, b |-> b]
RECURSIVE Holds(_)
Holds(c) ==
  CASE c.t = "cmp" -> (LET a == Val(c.a)[2] b == Val(c.b)[2] IN
                       IF c.op = "<" THEN RLt(a, b) ELSE IF c.op = "<=" THEN RLe(a, b) ELSE IF c.op = ">" THEN RLt(b, a)
                       ELSE IF c.op = ">=" THEN RLe(b, a) ELSE a = b)
    [] c.t = "and" -> Holds(c.a) /\ Holds(c.b)
    [] c.t = "or" -> Holds(c.a) \/ Holds(c.b)
    [] c.t = "not" -> ~Holds(c.a)
CondVal(e) == IF Holds(e.c) THEN Val(e.a)[2] ELSE Val(e.b)[2]
RECURSIVE PrL(_), PrLFull(_)
PrL(c) ==
  CASE c.t = "cmp" -> PrMin(c.a, "") \o c.op \o PrMin(c.b, "")
    [] c.t = "and" -> (IF c.a.t = "or" THEN P(PrL(c.a)) ELSE PrL(c.a)) \o "&&" \o (IF c.b.t = "or" THEN P(PrL(c.b)) ELSE PrL(c.b))
    [] c.t = "or" -> PrL(c.a) \o "||" \o PrL(c.b)
    [] c.t = "not" -> "!" \o P(PrL(c.a))
PrLFull(c) ==
  CASE c.t = "cmp" -> P(PrFull(c.a) \o c.op \o PrFull(c.b))
    [] c.t = "and" -> P(PrLFull(c.a) \o " && " \o PrLFull(c.b))
    [] c.t = "or" -> P(PrLFull(c.a) \o " || " \o PrLFull(c.b))
    [] c.t = "not" -> "!" \o P(PrLFull(c.a))
PrCond(e) == PrL(e.c) \o "?" \o PrMin(e.a, "") \o ":" \o PrMin(e.b, "")
PrCondFull(e) == PrLFull(e.c) \o " ? " \o PrFull(e.a) \o " : " \o PrFull(e.b)
\* ---- parameters and external functions (C13: resolveDependencies, parameters turned into variables) --------------
(* A formula may refer to names that are not variables: parameters, bound by an ExternalFunctionManager to other formulas
   (here p and q, q's formula may use p), and functions (here f, a formula in the variable u, which may use p and q),
   written f(a): [t |-> "call", a].  The value of the formula is the value of the tree obtained by substitution.
   resolveDependencies() must preserve it; createFunctionByChangingParametersIntoVariables({"p"}) makes p a variable of the
   returned function when the formula names p itself (it is refused otherwise): with that variable set to the value of p the
   value is preserved.  (What happens for another value of the variable when q or f also use p is not specified by the
   documentation nor fixed by the upstream tests - the formulas of q and f keep the manager's p - and is not judged;
   Resolved(g, env, pv) with pv a number gives the reading in which p is replaced everywhere.) *)
Call(a) == [t |-> "call", a |-> a]
RECURSIVE SubstVar(_, _, _)
SubstVar(e, n, by) == CASE e.t = "num" -> e [] e.t = "var" -> (IF e.n = n THEN by ELSE e) [] e.t = "neg" -> Neg(SubstVar(e.a, n, by))
                        [] e.t = "bin" -> Bin(e.op, SubstVar(e.a, n, by), SubstVar(e.b, n, by)) [] e.t = "call" -> Call(SubstVar(e.a, n, by))
RECURSIVE Inline(_, _)
Inline(e, fb) == CASE e.t \in {"num", "var"} -> e [] e.t = "neg" -> Neg(Inline(e.a, fb)) [] e.t = "bin" -> Bin(e.op, Inline(e.a, fb), Inline(e.b, fb))
                   [] e.t = "call" -> SubstVar(fb, "u", Inline(e.a, fb))
\* env = [p, q, f]: formulas of the parameters and body of f; pv = tree standing for p (its formula, or a number when p is a variable)
Resolved(g, env, pv) == LET vq == SubstVar(env.q, "p", pv)
                            fb == SubstVar(SubstVar(env.f, "q", vq), "p", pv)
                        IN  SubstVar(SubstVar(Inline(g, fb), "q", vq), "p", pv)
\* theorems of the oracle: printing then reading by the documented rules is the identity on a few examples
Theorems == /\ PrMin(Bin("-", Num(1), Bin("-", Num(2), Var("x"))), "") = "1-(2-x)"
            /\ PrMin(Bin("-", Bin("-", Num(1), Num(2)), Var("x")), "") = "1-2-x"
            /\ PrMin(Bin("*", Bin("+", Num(1), Num(2)), Neg(Var("x"))), "") = "(1+2)*(-x)"
            /\ PrMin(Neg(Bin("**", Var("x"), Num(2))), "") = "-x**2"
            /\ PrMin(Bin("**", Neg(Var("x")), Num(2)), "") = "(-x)**2"
            /\ PrMin(Bin("/", Num(8), Bin("/", Num(2), Num(2))), " ") = "8 / (2 / 2)"
            /\ Val(Bin("**", Neg(Var("x")), Num(2)))[2] = RI(4) /\ Val(Neg(Bin("**", Var("x"), Num(2))))[2] = RI(-4)
            /\ Val(D(Bin("/", Var("x"), Bin("+", Var("x"), Var("y"))), "x"))[2] = <<3, 25>>
            /\ PrL(Or(Cmp("<", Var("x"), Var("y")), And(Cmp("<", Var("y"), Var("x")), Cmp("==", Var("x"), Num(2))))) = "x<y||y<x&&x==2"
            /\ PrL(And(Or(Cmp("<", Var("x"), Var("y")), Cmp("<", Var("y"), Var("x"))), Cmp("==", Var("x"), Num(3)))) = "(x<y||y<x)&&x==3"
            /\ Holds(Or(Cmp("<", Var("x"), Var("y")), And(Cmp("<", Var("y"), Var("x")), Cmp("==", Var("x"), Num(3)))))
            /\ ~Holds(And(Or(Cmp("<", Var("x"), Var("y")), Cmp("<", Var("y"), Var("x"))), Cmp("==", Var("x"), Num(3))))
            /\ Val(Resolved(Bin("+", Call(Var("q")), Var("p")), [p |-> Num(3), q |-> Bin("*", Var("p"), Num(2)), f |-> Bin("-", Bin("*", Var("u"), Var("u")), Var("p"))], Num(3)))[2] = RI(36)
            /\ Val(Resolved(Bin("+", Call(Var("q")), Var("p")), [p |-> Num(3), q |-> Bin("*", Var("p"), Num(2)), f |-> Bin("-", Bin("*", Var("u"), Var("u")), Var("p"))], Num(5)))[2] = RI(100)
            /\ ExpIndep(Bin("**", Var("x"), Var("y")), "x") /\ ~ExpIndep(Bin("**", Var("x"), Var("y")), "y")
            /\ Val(D(Bin("**", Var("x"), Var("y")), "x"))[2] = RI(12)                     \* y*x**(y-1) at (2, 3)
=============================================================================

SPECIFICATION TraceSpec
CONSTANTS
  IterMax = 0
INVARIANTS TIterBound SoundSuccess
CONSTRAINT TrackMaxL
POSTCONDITION ReportMaxL
CHECK_DEADLOCK FALSE

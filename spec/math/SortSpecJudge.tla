----------------------------- MODULE SortSpecJudge -----------------------------
(* Observations of harness/eigensort.cxx:
   fn     : in, out = values (small integers), perm = for each output column the input column found there
            (<<>> for the functions that only move values)
   solver : the same solver is run unsorted and with the requested ordering on the same tensor; in / out =
            dense ranks (RANK abstraction, NaN = -1) of the unsorted / sorted eigenvalues among all six
            values, perm = for each sorted column the index of the bit-identical unsorted column (0 = none),
            <<>> when only values were requested.  This isolates the ordering step (C04) from the accuracy
            of the solver (C03). *)
EXTENDS SortSpec, Mat3, Judge
FailsFn(o) ==
  (IF Honoured(IF o.fn \in {"sortEigenValues", "fses_sort"} THEN 3 ELSE o.n, o.ord, o.in, o.out) THEN {} ELSE {"order:" \o o.fn})
  \cup (IF Len(o.perm) = 3 /\ ~ColumnsFollow(o.in, o.out, o.perm) THEN {"columns:" \o o.fn} ELSE {})
FailsSolver(o) ==
  (IF Honoured(o.n, o.ord, o.in, o.out) THEN {} ELSE {"order:solver"})
  \cup (IF Len(o.perm) = 3 /\ ~ColumnsFollow(o.in, o.out, o.perm) THEN {"columns:solver"} ELSE {})
Fails(o) == IF o.kind = "fn" THEN FailsFn(o) ELSE FailsSolver(o)
ASSUME JudgeAll(Fails)
=============================================================================

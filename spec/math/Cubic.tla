--------------------------------- MODULE Cubic ---------------------------------
(* C10 - CubicRoots::exe returns genuine roots.
   Cubics are *constructed* from their roots so that the truth is known exactly:
     real   : a (x - r1)(x - r2)(x - r3)          r1 <= r2 <= r3 integers (all multiplicity patterns)
     complex: a (x - r)(x^2 + b x + c), b^2 < 4c  one real root r
   Coefficients <<a3, a2, a1, a0>> are integers (Vieta).  The harness replays each cubic with its roots
   scaled by 2^k (coefficient a_i times 2^((3-i)k), exact in binary floating point). *)
EXTENDS Integers, Sequences, FiniteSets
CoeffsReal(a, r) == <<a, -a * (r[1] + r[2] + r[3]), a * (r[1] * r[2] + r[1] * r[3] + r[2] * r[3]), -a * r[1] * r[2] * r[3]>>
CoeffsCplx(a, r, b, c) == <<a, a * (b - r), a * (c - b * r), -a * c * r>>
Eval(co, x) == ((co[1] * x + co[2]) * x + co[3]) * x + co[4]
\* depressed form X^3 + pX + q: numerators of p and q (denominators 3 a3^2 and 27 a3^3 are non zero)
PNum(co) == 3 * co[1] * co[3] - co[2] * co[2]
QNum(co) == 2 * co[2] * co[2] * co[2] - 9 * co[1] * co[2] * co[3] + 27 * co[1] * co[1] * co[4]
Disc(co) == 18 * co[1] * co[2] * co[3] * co[4] - 4 * co[2] * co[2] * co[2] * co[4] + co[2] * co[2] * co[3] * co[3]
            - 4 * co[1] * co[3] * co[3] * co[3] - 27 * co[1] * co[1] * co[4] * co[4]
\* the branch of Cardan's case analysis that the cubic must exercise
Branch(co) == IF PNum(co) = 0 THEN (IF QNum(co) = 0 THEN "p=0,q=0" ELSE "p=0")
              ELSE IF QNum(co) = 0 THEN "q=0"
              ELSE IF Disc(co) = 0 THEN "disc=0" ELSE IF Disc(co) < 0 THEN "disc<0" ELSE "disc>0"
Mult(r, x) == Cardinality({i \in 1..3 : r[i] = x})
Distinct(r) == r[1] < r[2] /\ r[2] < r[3]
(* Admissible outcomes. nb = returned count, q[i] = integer nearest to x_i / 2^k, d[i] = distance class of
   x_i / 2^k to q[i]: 0: <= 1e-9, 1: <= 1e-6, 2: <= 1e-4, 3: more (tolerances eps^(1/m) with margin, fixed a priori) *)
IsRoot(r, q, d, i) == Mult(r, q[i]) >= 1 /\ d[i] <= Mult(r, q[i]) - 1
OkReal(r, nb, q, d) ==
  IF Distinct(r)
  THEN /\ nb = 3                                                    \* three well-separated real roots
       /\ \A i \in 1..3 : IsRoot(r, q, d, i)
       /\ {q[i] : i \in 1..3} = {r[i] : i \in 1..3}                 \* the three roots, each once
  ELSE /\ nb \in {1, 3}                                             \* multiple roots: either count ...
       /\ IF nb = 3 THEN \A i \in 1..3 : IsRoot(r, q, d, i)         \* ... every presented value is a root
          ELSE \E i \in 1..3 : IsRoot(r, q, d, i)
OkCplx(r, nb, q, d) == nb = 1 /\ \E i \in 1..3 : q[i] = r /\ d[i] = 0
\* sanity of the oracle: the constructed coefficients vanish at the roots, and the discriminant sign is right
Theorems ==
  /\ \A a \in {1, -2, 3} : \A r1 \in -3..3 : \A r2 \in r1..3 : \A r3 \in r2..3 :
        LET co == CoeffsReal(a, <<r1, r2, r3>>) IN
          /\ Eval(co, r1) = 0 /\ Eval(co, r2) = 0 /\ Eval(co, r3) = 0
          /\ (Disc(co) > 0) = Distinct(<<r1, r2, r3>>) /\ Disc(co) >= 0
  /\ \A r \in -3..3 : \A b \in -2..2 : \A c \in 1..4 : b * b < 4 * c =>
        LET co == CoeffsCplx(2, r, b, c) IN Eval(co, r) = 0 /\ Disc(co) < 0
=============================================================================

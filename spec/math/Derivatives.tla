----------------------------- MODULE Derivatives -----------------------------
(* C06 - closed-form derivative helpers are true derivatives.

   The *functions* whose derivatives TFEL returns in closed form are written here in index notation on exact
   3x3 integer matrices (Mat3T.tla): det, det of the deviator, square, C = F^T F, b = F F^T, products, transpose,
   push-forward, Kirchhoff / Cauchy / first Piola-Kirchhoff stresses as functions of F ...  None of the
   closed forms under test is transcribed.  All these functions are polynomials (degree <= 4) of the
   perturbation Z of the operand, so their directional derivative at Z = 0 is given EXACTLY by a central
   finite-difference stencil evaluated in integer arithmetic (a "converged finite difference" in the sense
   of the statement, with no truncation and no rounding error):
       degree <= 2 :  p'(0) = (p(1) - p(-1)) / 2
       degree <= 4 :  p'(0) = (8 (p(1) - p(-1)) - (p(2) - p(-2))) / 12
       degree <= 6 :  p'(0) = (45 (p(1) - p(-1)) - 9 (p(2) - p(-2)) + (p(3) - p(-3))) / 60
   and the mixed second derivative of a cubic by  (g(1,1) - g(1,-1) - g(-1,1) + g(-1,-1)) / 4.
   The only rational function (Cauchy stress = Kirchhoff stress / det F) is handled by the quotient rule
   applied to two polynomial stencils.

   A case is a record  [kind, n, x, b, c, L, m, k]:
     kind : which helper,        n : space dimension (1, 2, 3),
     x    : point of differentiation (row-major 3x3 integers),   b, c : further tensor arguments,
     L    : an inner derivative given to the chain-rule variants, as its "natural matrix":
            L[d] = image of the d-th elementary direction, flattened,
     m    : small integer parameter,   k : integer by which the harness multiplies the result (k . result is integral).
   The observation of the harness is  val[d] = flattened (k . helper result applied to the d-th elementary
   direction), in natural (matrix) components, i.e. after removing TFEL's sqrt(2) storage weights. *)
EXTENDS Mat3T, Integers, Sequences, FiniteSets

\* ---- directions and flattening ------------------------------------------------------------------------
El(p, q) == Mat(LAMBDA i, j : IF i = p /\ j = q THEN 1 ELSE 0)
\* elementary symmetric directions in TFEL order 11 22 33 12 13 23 ; elementary directions 11 22 33 12 21 13 31 23 32
SymDirs  == <<El(1, 1), El(2, 2), El(3, 3), Add(El(1, 2), El(2, 1)), Add(El(1, 3), El(3, 1)), Add(El(2, 3), El(3, 2))>>
FullDirs == <<El(1, 1), El(2, 2), El(3, 3), El(1, 2), El(2, 1), El(1, 3), El(3, 1), El(2, 3), El(3, 2)>>
NSym(n)  == IF n = 1 THEN 3 ELSE IF n = 2 THEN 4 ELSE 6
NFull(n) == IF n = 1 THEN 3 ELSE IF n = 2 THEN 5 ELSE 9
Dirs(argsym, n) == IF argsym THEN SubSeq(SymDirs, 1, NSym(n)) ELSE SubSeq(FullDirs, 1, NFull(n))
\* result types: "sym" (6 components), "full" (9 components, TFEL order), "scalar"
Flat(res, M) == IF res = "sym" THEN CompOf(M) ELSE IF res = "full" THEN Comp9Of(M) ELSE <<M[1][1]>>
Scal(v) == Diag(v, 0, 0)
\* shape of an n-dimensional tensor: 1D diagonal, 2D no 13 31 23 32 components
HasShape(n, M) == /\ n = 1 => \A i, j \in I3 : i # j => M[i][j] = 0
                  /\ n = 2 => M[1][3] = 0 /\ M[3][1] = 0 /\ M[2][3] = 0 /\ M[3][2] = 0
Cofm(A) == Transpose(Adj(A))                        \* cofactor matrix = det(A) . A^-T

\* ---- natural matrices of linear maps -------------------------------------------------------------------
\* (explicit tuples: TLC evaluates them once, whereas a function constructor is re-evaluated at each use)
NatMat(g(_), argsym, res, n) ==
  LET D == Dirs(argsym, n)
      E(d) == Flat(res, g(D[d]))
  IN  IF Len(D) = 3 THEN <<E(1), E(2), E(3)>>
      ELSE IF Len(D) = 4 THEN <<E(1), E(2), E(3), E(4)>>
      ELSE IF Len(D) = 5 THEN <<E(1), E(2), E(3), E(4), E(5)>>
      ELSE IF Len(D) = 6 THEN <<E(1), E(2), E(3), E(4), E(5), E(6)>>
      ELSE <<E(1), E(2), E(3), E(4), E(5), E(6), E(7), E(8), E(9)>>
\* apply a natural matrix to a tensor Z (symmetric when argsym): sum over d of coordinate_d(Z) . L[d]
LApply(L, argsym, Z) ==
  LET co == IF argsym THEN CompOf(Z) ELSE Comp9Of(Z)
      M(q) == IF q > Len(L) THEN Zero3 ELSE IF Len(L[q]) = 6 THEN Scale(co[q], SymOf(L[q])) ELSE Scale(co[q], FullOf(L[q]))
      T == <<M(1), M(2), M(3), M(4), M(5), M(6), M(7), M(8), M(9)>>
  IN  Mat(LAMBDA i, j : T[1][i][j] + T[2][i][j] + T[3][i][j] + T[4][i][j] + T[5][i][j] + T[6][i][j] + T[7][i][j] + T[8][i][j] + T[9][i][j])

\* ---- catalogue ---------------------------------------------------------------------------------------------
ScalarSym  == {"det_s", "devdet_s"}                                     \* gradient and Hessian
ScalarFull == {"det_t"}
SymToSym   == {"dsquare", "dsquare_c", "stpd", "daba_da", "daba_db"}
SymToFull  == {"st_tpld", "st_tprd", "st_tpld_c", "st_tprd_c"}
FullToFull == {"t_tpld", "t_tprd", "t_tpld_c", "t_tprd_c", "transpose", "velgrad", "spinrate", "pk1_from_sig", "pk1_from_pk2"}
FullToSym  == {"dCdF", "dBdF", "ratedef", "pushfwd", "sig_from_tau", "tau_from_sig", "tau_from_pk1"}
Kinds == ScalarSym \cup ScalarFull \cup SymToSym \cup SymToFull \cup FullToFull \cup FullToSym
ArgSym(kind) == kind \in ScalarSym \cup SymToSym \cup SymToFull
Res(kind) == IF kind \in ScalarSym \cup ScalarFull THEN "scalar"
             ELSE IF kind \in SymToSym \cup FullToSym THEN "sym" ELSE "full"
\* inner derivative of the chain-rule variants: (argument symmetric?, result type)
LArgSym(kind) == kind \in {"dsquare_c", "st_tpld_c", "st_tprd_c", "pk1_from_pk2"}
\* polynomial degree of the function in the perturbation Z
Deg(kind) == IF kind \in {"dsquare", "dsquare_c", "stpd", "daba_da", "daba_db", "st_tpld", "st_tprd", "st_tpld_c", "st_tprd_c",
                          "t_tpld", "t_tprd", "t_tpld_c", "t_tprd_c", "transpose", "velgrad", "spinrate", "ratedef", "dCdF", "dBdF"}
             THEN 2 ELSE 4
\* integer by which the observed result is multiplied (KE: see the eigen section below)
KE(vp, d) == d * d * d * d * (vp[1] - vp[2]) * (vp[1] - vp[3]) * (vp[2] - vp[3])
K(kind, x, b, m) == IF kind = "devdet_s" THEN 27
              ELSE IF kind = "velgrad" THEN Det(x)
              ELSE IF kind \in {"spinrate", "ratedef"} THEN 2 * Det(x)
              ELSE IF kind = "sig_from_tau" THEN Det(x) * Det(x)
              ELSE IF kind = "eig" THEN KE(<<b[1][1], b[2][2], b[3][3]>>, m)
              ELSE 1

DivMat2(A) == Mat(LAMBDA i, j : A[i][j] \div 2)
\* ---- the functions (k . f as a function of the perturbation Z of the operand) ------------------------------------
Fn(o, Z) ==
  LET x == OfRowMajor(o.x)
      b == OfRowMajor(o.b)
      c == OfRowMajor(o.c)
      X == Add(x, Z)
      kd == o.kind
      LZ == IF o.L = <<>> THEN Zero3 ELSE LApply(o.L, LArgSym(kd), Z)     \* increment of the inner function
  IN  CASE kd = "det_s"     -> Scal(Det(X))
        [] kd = "det_t"     -> Scal(Det(X))
        [] kd = "devdet_s"  -> Scal(Det(Dev3(X)))                            \* 27 . J3
        [] kd = "dsquare"   -> Mul(X, X)
        [] kd = "dsquare_c" -> Mul(Add(x, LZ), Add(x, LZ))                     \* s(c)^2 with ds/dc = L
        [] kd = "stpd"      -> Add(Mul(X, b), Mul(b, X))                       \* st2tost2.hxx: d/ds1 (s1.s + s.s1)
        [] kd = "daba_da"   -> Mul(X, Mul(b, X))
        [] kd = "daba_db"   -> Mul(x, Mul(Z, x))                               \* a.b.a as a function of b
        [] kd = "st_tpld"   -> Mul(X, b)
        [] kd = "st_tprd"   -> Mul(b, X)
        [] kd = "st_tpld_c" -> Mul(Add(x, LZ), b)
        [] kd = "st_tprd_c" -> Mul(b, Add(x, LZ))
        [] kd = "t_tpld"    -> Mul(X, b)
        [] kd = "t_tprd"    -> Mul(b, X)
        [] kd = "t_tpld_c"  -> Mul(Add(x, LZ), b)
        [] kd = "t_tprd_c"  -> Mul(b, Add(x, LZ))
        [] kd = "transpose" -> Transpose(X)
        [] kd = "velgrad"   -> Mul(Z, Adj(x))                                   \* det(F) . dF.F^-1
        [] kd = "spinrate"  -> Sub(Mul(Z, Adj(x)), Transpose(Mul(Z, Adj(x))))   \* 2 det(F) . skew(dF.F^-1)
        [] kd = "ratedef"   -> Sym2(Mul(Z, Adj(x)))                             \* 2 det(F) . sym(dF.F^-1)
        [] kd = "dCdF"      -> Mul(Transpose(X), X)
        [] kd = "dBdF"      -> Mul(X, Transpose(X))
        [] kd = "pushfwd"   -> Mul(X, Mul(Add(b, LZ), Transpose(X)))            \* F.S(F).F^T, S(F) = b + L:(F - x)
        [] kd = "tau_from_sig" -> Scale(Det(X), Add(b, LZ))                     \* tau = J sigma(F)
        [] kd = "sig_from_tau" -> Add(Scale(Det(x), b), LZ)                     \* numerator tau(F) of sigma = tau / J
        [] kd = "pk1_from_sig" -> Mul(Add(b, LZ), Cofm(X))                      \* P = J sigma F^-T
        \* P = F.S(E_GL(F)), S = b + (L/2):(2 E_GL - 2 E_GL(x)), L = dS/dE_GL (even entries)
        [] kd = "pk1_from_pk2" -> Mul(X, Add(b, DivMat2(LApply(o.L, TRUE, Sub(Mul(Transpose(X), X), Mul(Transpose(x), x))))))
        \* tau = P.F^T with P(F) = F.S(F), S(F) = c + m (F^T F - x^T x): symmetric for every F
        [] kd = "tau_from_pk1" -> LET S == Add(c, Scale(o.m, Sub(Mul(Transpose(X), X), Mul(Transpose(x), x))))
                                  IN  Mul(X, Mul(S, Transpose(X)))
\* the first Piola-Kirchhoff stress of kind "tau_from_pk1" (its derivative is an input of the helper)
PK1Of(o, Z) == LET x == OfRowMajor(o.x) c == OfRowMajor(o.c) X == Add(x, Z)
               IN  Mul(X, Add(c, Scale(o.m, Sub(Mul(Transpose(X), X), Mul(Transpose(x), x)))))

\* ---- exact stencils ------------------------------------------------------------------------------------------------
DivMat(A, q) == Mat(LAMBDA i, j : A[i][j] \div q)
Divisible(A, q) == \A i, j \in I3 : A[i][j] % q = 0
Num1(deg, f(_), H) ==
  IF deg <= 2 THEN Sub(f(H), f(Scale(-1, H)))
  ELSE IF deg <= 4 THEN Sub(Scale(8, Sub(f(H), f(Scale(-1, H)))), Sub(f(Scale(2, H)), f(Scale(-2, H))))
  ELSE Add(Sub(Scale(45, Sub(f(H), f(Scale(-1, H)))), Scale(9, Sub(f(Scale(2, H)), f(Scale(-2, H))))),
           Sub(f(Scale(3, H)), f(Scale(-3, H))))
Den1(deg) == IF deg <= 2 THEN 2 ELSE IF deg <= 4 THEN 12 ELSE 60
D1(deg, f(_), H) == DivMat(Num1(deg, f, H), Den1(deg))
Num2(f(_), H, G) == Add(Sub(f(Add(H, G)), f(Sub(H, G))), Sub(f(Sub(Scale(-1, H), G)), f(Sub(G, H))))
D2(f(_), H, G) == DivMat(Num2(f, H, G), 4)

\* ---- expected observations ----------------------------------------------------------------------------------------------
\* val[d] for every elementary direction d
ExpectedVal(o) ==
  LET D == Dirs(ArgSym(o.kind), o.n)
      x == OfRowMajor(o.x)
  IN  IF o.kind = "sig_from_tau"
      \* quotient rule: J^2 (N/Q)' = N' Q - N Q' with N = tau(F) (polynomial above) and Q = det F
      THEN [d \in 1..Len(D) |-> Flat("sym",
              Sub(Scale(Det(x), D1(2, LAMBDA Z : Fn(o, Z), D[d])),
                  Scale(D1(4, LAMBDA Z : Scal(Det(Add(x, Z))), D[d])[1][1], Fn(o, Zero3))))]
      ELSE [d \in 1..Len(D) |-> Flat(Res(o.kind), D1(Deg(o.kind), LAMBDA Z : Fn(o, Z), D[d]))]
\* hess[d1][d2] for the scalar functions (cubic polynomials)
\* (upper triangle; the observed matrix must moreover be symmetric - Schwarz)
ExpectedHessUpper(o) ==
  LET D == Dirs(ArgSym(o.kind), o.n)
  IN  [d1 \in 1..Len(D) |-> [d2 \in 1..Len(D) |-> IF d1 <= d2 THEN D2(LAMBDA Z : Fn(o, Z), D[d1], D[d2])[1][1] ELSE 0]]
UpperOf(h) == [d1 \in 1..Len(h) |-> [d2 \in 1..Len(h[d1]) |-> IF d1 <= d2 THEN h[d1][d2] ELSE 0]]
IsSymSeq(h) == \A d1 \in 1..Len(h) : Len(h[d1]) = Len(h) /\ \A d2 \in 1..Len(h) : h[d1][d2] = h[d2][d1]

\* ---- eigenvalues and eigentensors: derivatives of implicitly defined functions ----------------------------------------------
(* s = M.diag(vp).M^T / d^2 with M an integer matrix with orthogonal columns of squared norm d^2 (M = QuatMat(q),
   d = QuatNorm(q)) and vp three distinct integers.  The eigentensor N_i = m_i m_i^T / d^2 and the eigenvalue vp_i are
   the solution of   s.N = lambda N,  N.N = N,  tr N = 1   near (vp_i, N_i); the implicit function theorem says
   that their derivatives (lambda', N') in the direction D are the unique solution of the linearised system
        D.N + s.N' = lambda' N + lambda N',      N'.N + N.N' = N'.
   The observation gives Y = KE . lambda' and X = KE . N' (integers, KE = d^4 . prod_{i<j} (vp_i - vp_j)); multiplying the
   system by KE d^2 gives integer equations. *)
EigS(vp, M) == Mul(M, Mul(Diag(vp[1], vp[2], vp[3]), Transpose(M)))                 \* d^2 . s
EigNN(M, i) == Mat(LAMBDA p, q : M[p][i] * M[q][i])                                   \* d^2 . N_i
\* S = d^2 s, NN = d^2 N_i, kk = KE, li = vp_i
EigLinearised(S, NN, kk, d, li, Dm, Y, X) ==
    /\ Add(Scale(kk, Mul(Dm, NN)), Mul(S, X)) = Add(Scale(Y, NN), Scale(d * d * li, X))
    /\ Add(Mul(X, NN), Mul(NN, X)) = Scale(d * d, X)
    /\ IsSym(X)

\* ---- sanity theorems of the oracle itself (checked by TLC before generation) --------------------------------------------------
GenericFull == FullOf(<<2, -3, 5, 1, -4, 7, -6, 8, -9>>)
GenericSym  == SymOf(<<2, -3, 5, 1, -4, 7>>)
GenericDir  == FullOf(<<1, -2, 1, 3, -1, 2, 1, -3, 2>>)
OracleTheorems ==
  \* the stencils are exact on monomials up to their degree and agree with each other
  /\ \A e \in 0..4 : LET f(Z) == Scal(IF e = 0 THEN 1 ELSE IF e = 1 THEN Z[1][1] ELSE IF e = 2 THEN Z[1][1] * Z[1][1]
                                     ELSE IF e = 3 THEN Z[1][1] * Z[1][1] * Z[1][1] ELSE Z[1][1] * Z[1][1] * Z[1][1] * Z[1][1])
                     IN  /\ D1(4, f, Scal(3))[1][1] = (IF e = 1 THEN 3 ELSE 0)
                         /\ D1(6, f, Scal(3))[1][1] = (IF e = 1 THEN 3 ELSE 0)
                         /\ e <= 2 => D1(2, f, Scal(3))[1][1] = (IF e = 1 THEN 3 ELSE 0)
  \* Jacobi's formula and the product rule are recovered by the stencils
  /\ LET A == GenericFull H == GenericDir IN
       /\ D1(4, LAMBDA Z : Scal(Det(Add(A, Z))), H)[1][1] = Contract(Cofm(A), H)
       /\ D1(2, LAMBDA Z : Mul(Add(A, Z), Add(A, Z)), H) = Add(Mul(A, H), Mul(H, A))
       /\ Divisible(Num1(4, LAMBDA Z : Mul(Add(A, Z), Mul(Add(GenericSym, Z), Transpose(Add(A, Z)))), H), 12)
       /\ D1(4, LAMBDA Z : Mul(Add(A, Z), Mul(GenericSym, Transpose(Add(A, Z)))), H)
            = D1(6, LAMBDA Z : Mul(Add(A, Z), Mul(GenericSym, Transpose(Add(A, Z)))), H)
       /\ D2(LAMBDA Z : Scal(Det(Add(A, Z))), H, H)[1][1] * 1 = 2 * Contract(Cofm(H), A)
  /\ Mul(GenericFull, Transpose(Cofm(GenericFull))) = Scale(Det(GenericFull), Id3)
=============================================================================

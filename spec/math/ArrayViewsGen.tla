--------------------------- MODULE ArrayViewsGen ---------------------------
\* GEN for C17: programs (view layouts, expression trees, operand kinds, offsets / aliasing patterns, values) written as
\* ndjson.  The python driver (checks/C17.py) turns every distinct (view) and (family, operand kinds, tree, assignment)
\* into one C++ function using the real expression templates, compiles them, and the harness runs the programs.
\* TIER = quick | thorough.
EXTENDS ArrayViews, TLC, Json, IOUtils, SequencesExt, FiniteSetsExt
Thorough == IOEnv.TIER = "thorough"
L == 48
Iota == [q \in 1..L |-> q]
\* ---------------- addr programs ----------------
AV(v, off) == [kind |-> "addr", v |-> v, off |-> off, buf |-> Iota]
DerivTypes == {<<"stensor1", "scalar">>, <<"scalar", "stensor1">>, <<"tvector2", "tvector2">>, <<"stensor1", "tvector2">>, <<"stensor1", "stensor1">>}
Rels == {<<0, 1, 2, 3>>, <<3, 2, 1, 0>>, <<0, 2, 4, 6>>, <<5, 0, 7, 2>>, <<1, 9, 4, 6>>}
AddrSeq ==
  SetToSeq({AV([k |-> "vecview", n |-> n, st |-> st], off) : n \in 2..4, st \in 1..3, off \in {0, 2}})
  \o SetToSeq({AV([k |-> "matview", n |-> nm[1], m |-> nm[2], st |-> nm[2] + ds], off) : nm \in {<<2, 2>>, <<2, 3>>, <<3, 2>>}, ds \in 0..2, off \in {0, 1}})
  \o SetToSeq({AV([k |-> "slice1", i |-> i], 1) : i \in 0..5})
  \* slice<i, j>() with j = 6 = size of the host does not compile on the pinned tree (ambiguous with slice<i, N>(tvector<N>&)): j <= 5
  \o SetToSeq({AV([k |-> "slice2", i |-> ij[1], j |-> ij[2]], 1) : ij \in {x \in (0..5) \X (1..5) : x[1] < x[2]}})
  \o SetToSeq({AV([k |-> "tvmap", t |-> ti[1], i |-> ti[2]], 2) : ti \in {x \in {"stensor1", "tvector2", "tmatrix22"} \X (0..4) : x[2] + SizeOfType(x[1]) <= 6}})
  \o SetToSeq({AV([k |-> "row1", i |-> i], 3) : i \in 0..2})
  \o SetToSeq({AV([k |-> "row3", i |-> x[1], j |-> x[2], n |-> x[3]], 3) : x \in {y \in (0..2) \X (0..3) \X (1..4) : y[2] + y[3] <= 4}})
  \o SetToSeq({AV([k |-> "col1", i |-> i], 3) : i \in 0..3})
  \o SetToSeq({AV([k |-> "col3", i |-> x[1], j |-> x[2], n |-> x[3]], 3) : x \in {y \in (0..3) \X (0..2) \X (1..3) : y[2] + y[3] <= 3}})
  \o SetToSeq({AV([k |-> "submat", i |-> x[1], j |-> x[2], r |-> x[3], c |-> x[4]], 3) :
          x \in {y \in (0..2) \X (0..3) \X (1..3) \X (1..4) : y[1] + y[3] <= 3 /\ y[2] + y[4] <= 4 /\ (Thorough \/ (y[1] + y[2] + y[3] + y[4]) % 2 = 0)}})
  \o SetToSeq({AV([k |-> "strided", t |-> t, st |-> st], off) : t \in {"stensor2", "tvector3"}, st \in 1..3, off \in {0, 1}})
  \o SetToSeq({AV([k |-> "coal", t |-> "stensor2", rel |-> rel], off) : rel \in Rels, off \in {0, 3}})
  \o SetToSeq({AV([k |-> "deriv", f |-> x[1][1], v |-> x[1][2], i |-> x[2], j |-> x[3], rt |-> x[4]], 4) :
          x \in {y \in DerivTypes \X (0..4) \X (0..3) \X (0..1) : y[2] + SizeOfType(y[1][1]) <= 5 /\ y[3] + SizeOfType(y[1][2]) <= 4
                   /\ (y[4] = 0 \/ (y[2] + y[3]) % 2 = 1)}})
  \o SetToSeq({AV([k |-> "derivs", f |-> x[1][1], v |-> x[1][2], i |-> x[2], j |-> x[3], st |-> x[4]], 1) :
          x \in {y \in DerivTypes \X (0..4) \X (0..3) \X (1..2) : y[2] + SizeOfType(y[1][1]) <= 5 /\ y[3] + SizeOfType(y[1][2]) <= 4
                   /\ (y[2] + y[3] + y[4]) % 2 = 0}})
  \o SetToSeq({AV([k |-> "varray", n |-> 2, i |-> i, st |-> st], 5) : i \in 0..1, st \in 3..5})
\* ---------------- expr programs ----------------
Lf(s) == [op |-> "leaf", s |-> s]
Neg(x) == [op |-> "neg", x |-> x]
Add(x, y) == [op |-> "add", x |-> x, y |-> y]
Sub(x, y) == [op |-> "sub", x |-> x, y |-> y]
Sml(k, x) == [op |-> "sml", k |-> k, x |-> x]
Smr(x, k) == [op |-> "smr", x |-> x, k |-> k]
Div(x) == [op |-> "div", x |-> x]
Unary(x) == {Neg(x), Sml(1, x), Smr(x, 2), Div(x)}
Binary(x, y) == {Add(x, y), Sub(x, y)}
\* depth <= 1 on the leaf patterns (a), (d), (a, b), (d, a), (a, d), (a, a), (d, d) ; a hand-picked set of deeper trees
T1 == {Lf(1), Lf(3)} \cup Unary(Lf(1)) \cup Unary(Lf(3))
      \cup UNION {Binary(Lf(x[1]), Lf(x[2])) : x \in {<<1, 2>>, <<3, 1>>, <<1, 3>>, <<1, 1>>, <<3, 3>>}}
T2 == {Add(Lf(1), Sml(1, Lf(2))), Sub(Sml(1, Lf(1)), Smr(Lf(2), 2)), Neg(Add(Lf(1), Lf(2))), Div(Sub(Lf(1), Lf(2))),
       Add(Add(Lf(1), Lf(2)), Lf(3)), Sub(Lf(3), Sub(Lf(1), Lf(2))), Sml(2, Add(Lf(3), Div(Lf(1)))), Add(Neg(Lf(3)), Smr(Lf(1), 1)),
       Sub(Div(Add(Lf(1), Lf(3))), Sml(1, Neg(Lf(2)))), Div(Div(Lf(1))), Neg(Neg(Lf(3))), Add(Sml(1, Lf(3)), Sml(2, Lf(3))),
       Smr(Sub(Add(Lf(1), Lf(1)), Lf(2)), 2), Add(Sub(Lf(2), Lf(1)), Sub(Lf(1), Lf(2)))}
T3 == UNION {Binary(u, Lf(s)) : u \in Unary(Lf(1)) \cup Unary(Lf(2)), s \in {2, 3}}             \* thorough only
Trees == T1 \cup T2 \cup (IF Thorough THEN T3 ELSE {})
\* configurations: family, kinds of <<a, b, dst>>
Cfgs == << <<"tvector3", "own", "own", "own">>, <<"tvector3", "own", "own", "map">>, <<"tvector3", "map", "own", "sv2">>,
           <<"tvector3", "sv2", "map", "own">>, <<"tvector3", "map", "sv2", "map">>, <<"tvector3", "sv2", "sv2", "sv2">>,
           <<"tmatrix23", "own", "own", "own">>, <<"tmatrix23", "own", "map", "mv4">>, <<"tmatrix23", "mv4", "own", "map">>,
           <<"tmatrix23", "map", "mv4", "own">>, <<"tmatrix23", "mv4", "mv4", "mv4">>, <<"tmatrix23", "map", "map", "map">>,
           <<"stensor2", "own", "own", "own">>, <<"stensor2", "strided", "own", "map">>, <<"stensor2", "coal", "map", "strided">>,
           <<"stensor2", "map", "strided", "coal">>, <<"stensor2", "coal", "coal", "own">>, <<"stensor2", "strided", "strided", "strided">>,
           <<"stensor2", "coal", "own", "coal">>,
           <<"tensor2", "own", "own", "own">>, <<"tensor2", "own", "map", "map">>, <<"tensor2", "map", "map", "own">>,
           <<"vector3", "own", "own", "own">> >>
Bufs == << [q \in 1..L |-> 8 * q], [q \in 1..L |-> 8 * ((((q * 5) + 3) % 11) - 5)] >>
Consts == << <<2, -3>>, <<-1, 2>> >>
Opd(k, off, st, rel) == [k |-> k, off |-> off, st |-> st, rel |-> rel]
RelFor(k, v) == IF k = "coal" THEN (IF v = 0 THEN <<3, 1, 2, 0>> ELSE <<0, 2, 4, 6>>) ELSE <<>>
StFor(k, v) == IF k = "strided" THEN 2 + v ELSE 1
\* offset patterns: <<a, b, dst>> ; regions of 12 cells are disjoint ; equal offsets alias exactly when the kinds are equal ;
\* +-1 / +-2 shifts give overlapping, differently addressed views
Offs == << <<2, 14, 26>>, <<26, 14, 26>>, <<2, 26, 26>>, <<26, 26, 26>>, <<27, 14, 26>>, <<25, 14, 26>>, <<28, 26, 26>>, <<24, 25, 26>> >>
Prog(cf, t, asg, o, bv, cv, v) ==
  [kind |-> "expr", fam |-> cf[1], tree |-> t, asg |-> asg, buf |-> Bufs[bv], c |-> Consts[cv],
   ops |-> << Opd(cf[2], o[1], StFor(cf[2], v), RelFor(cf[2], v)), Opd(cf[3], o[2], StFor(cf[3], 0), RelFor(cf[3], 1 - v)),
              Opd(cf[4], o[3], StFor(cf[4], v), RelFor(cf[4], v)) >>]
\* a program is kept when it is well formed, its oracle evaluation is exact, and - to keep the meaning unambiguous - a view that
\* overlaps the destination without being the destination itself (shifted alias) is only read through trees without division
Keep(pr) == WellFormed(pr) /\ Run(pr).ok
\* compound assignments: all of them on the single-leaf tree ; quick tier: += on the shallow trees for odd configurations, -= on the
\* deep trees for even configurations ; thorough tier: = += -= on every tree of every configuration
Asgs(ci, t) == IF t = Lf(1) THEN {"=", "+=", "-=", "*=", "/=", "/=i"} ELSE IF Thorough THEN {"=", "+=", "-="}
               ELSE IF t \in T1 THEN (IF ci % 2 = 1 THEN {"=", "+="} ELSE {"="}) ELSE (IF ci % 2 = 0 THEN {"=", "-="} ELSE {"="})
Sel(ci, t, oi) == Thorough \/ oi <= 4 \/ ((ci + oi) % 2 = 0)
ExprSel == {Prog(Cfgs[x[1]], x[2], x[3], Offs[x[4]], 1 + ((x[1] + x[4]) % 2), 1 + (x[4] % 2), x[4] % 2) :
              x \in {y \in (1..Len(Cfgs)) \X Trees \X {"=", "+=", "-=", "*=", "/=", "/=i"} \X (1..Len(Offs)) :
                       y[3] \in Asgs(y[1], y[2]) /\ Sel(y[1], y[2], y[4]) /\ (y[3] = "=" \/ y[4] <= 4)}}
ExprKept == {pr \in ExprSel : Keep(pr)}
\* plain arrays (fsarray, runtime_array) and the run-time matrix: assignment and compound assignments only
Plain == {[kind |-> "expr", fam |-> f, tree |-> Lf(1), asg |-> asg, buf |-> Bufs[bv], c |-> Consts[1],
           ops |-> <<Opd("own", 2, 1, <<>>), Opd("own", 14, 1, <<>>), Opd("own", 26, 1, <<>>)>>] :
            f \in {"fsarray3", "rtarray3", "rtmatrix22"}, asg \in {"=", "+=", "-=", "*=", "/=", "/=i"}, bv \in 1..2}
\* ---------------- products ----------------
Prod == {[kind |-> "prod", what |-> "mv", m |-> Opd(km, 2, 1, <<>>), w |-> Opd(kw, 14, 1, <<>>), dk |-> dk, doff |-> 30, buf |-> Bufs[bv]] :
           km \in {"own", "map", "mv4"}, kw \in {"own", "map", "sv2"}, dk \in {"own", "map"}, bv \in 1..2}
        \cup {[kind |-> "prod", what |-> "mm", m |-> Opd(km, 2, 1, <<>>), w |-> Opd(kw, 14, 1, <<>>), dk |-> dk, doff |-> 30, buf |-> Bufs[bv]] :
           km \in {"own", "map", "mv4"}, kw \in {"own", "map"}, dk \in {"own", "map"}, bv \in 1..2}
        \cup {[kind |-> "prod", what |-> "dot", m |-> Opd(km, 2, 1, <<>>), w |-> Opd(kw, 14, 1, <<>>), dk |-> "own", doff |-> 30, buf |-> Bufs[bv]] :
           km \in {"own", "map", "sv2"}, kw \in {"own", "map", "sv2"}, bv \in 1..2}
Number(Sq) == [i \in 1..Len(Sq) |-> [id |-> i] @@ Sq[i]]
\* sanity of the oracle and of the generated lattice
NAlias == Cardinality({pr \in ExprKept : \E s \in Leaves(pr.tree) \cap {1, 2} : ExactAlias(pr, s)})
NShift == Cardinality({pr \in ExprKept : \E s \in Leaves(pr.tree) \cap {1, 2} : Overlaps(pr, s) /\ ~ExactAlias(pr, s)})
NSelf == Cardinality({pr \in ExprKept : 3 \in Leaves(pr.tree)})
ASSUME \A ai \in 1..Len(AddrSeq) : LET a == AddrSeq[ai] cs == ViewCells(a.v, a.off) IN Injective(cs) /\ \A p \in 1..Len(cs) : cs[p] >= 0 /\ cs[p] < L
ASSUME ndJsonSerialize(IOEnv.OUT, Number(AddrSeq \o SetToSeq(ExprKept) \o SetToSeq(Plain) \o SetToSeq(Prod)))
ASSUME PrintT(<<"GEN", Len(AddrSeq), Cardinality(ExprSel), Cardinality(ExprKept), Cardinality(Plain), Cardinality(Prod), NAlias, NShift, NSelf>>)
=============================================================================

------------------------------- MODULE CubicGen -------------------------------
EXTENDS Cubic, TLC, Json, IOUtils, SequencesExt
Ks == {0, 10, -10, 100, -100}
As == {1, -2, 3}
RealCases == {[kind |-> "real", a |-> a, r |-> <<r1, r2, r3>>, co |-> CoeffsReal(a, <<r1, r2, r3>>), k |-> k, refine |-> f,
               branch |-> Branch(CoeffsReal(a, <<r1, r2, r3>>))] :
                a \in As, r1 \in -3..3, r2 \in -3..3, r3 \in -3..3, k \in Ks, f \in 0..1}
CplxCases == {[kind |-> "cplx", a |-> a, r |-> <<r>>, b |-> b, c |-> c, co |-> CoeffsCplx(a, r, b, c), k |-> k, refine |-> f,
               branch |-> Branch(CoeffsCplx(a, r, b, c))] :
                a \in As, r \in -3..3, b \in -2..2, c \in 1..4, k \in Ks, f \in 0..1}
\* one real root -s and two complex roots such that the depressed form x^3 + p x + q has a very small p / q^(2/3): the sum of
\* the two cube roots of Cardano's formula then cancels ((x + s)(x^2 - s x + s^2 + e) = x^3 + e x + s (s^2 + e))
NearCases == {[kind |-> "cplx", a |-> a, r |-> <<-s>>, b |-> -s, c |-> s * s + e, co |-> CoeffsCplx(a, -s, -s, s * s + e), k |-> k, refine |-> f,
               branch |-> "disc<0:nearly-p=0"] : a \in {1, -2}, s \in {16, 64, 256}, e \in {1, 3}, k \in {0, 10, -10}, f \in 0..1}
Cases == NearCases \cup {c \in RealCases : c.r[1] <= c.r[2] /\ c.r[2] <= c.r[3]} \cup {c \in CplxCases : c.b * c.b < 4 * c.c}
Number(S) == LET s == SetToSeq(S) IN [i \in 1..Len(s) |-> [id |-> i] @@ s[i]]
ASSUME Theorems
\* every branch of the case analysis is exercised
ASSUME {c.branch : c \in Cases} = {"p=0,q=0", "p=0", "q=0", "disc=0", "disc<0", "disc>0", "disc<0:nearly-p=0"}
ASSUME ndJsonSerialize(IOEnv.OUT, Number(Cases))
ASSUME PrintT(<<"GEN", Cardinality(Cases)>>)
=============================================================================
